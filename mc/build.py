#!/usr/bin/env python3
"""Variant builder for /repo's *current working tree* with a content-hash keyed cache.

  build.get(variant) -> dict(dir=cache dir, so=path of libmpir.so, a=path of libmpir.a, ...)

The working tree is copied to a scratch directory outside /repo and /verif, configured and
built there with the tree's own configure/make, the artefacts are kept in the cache and the
scratch tree is deleted.  Nothing in the cache is ever *needed*: a missing entry is rebuilt.
"""
import hashlib, os, shutil, subprocess, sys, time, fcntl, json, tempfile

REPO = os.environ.get("VERIF_REPO", "/repo")
CACHE = os.environ.get("VERIF_CACHE", "/tmp/mpir-verif-cache")
SRC_EXT = {".c", ".h", ".asm", ".as", ".cc", ".in", ".am", ".m4", ".ac", ".inc", ".fat", ".nofat",
           ".sh", ".guess", ".sub", ".yasm", ".cpp"}
SKIP_DIRS = {".git", ".libs", ".deps", "autom4te.cache", "build.vc", "build.vc10", "build.vc11", "build.vc12",
             "build.vc14", "build.vc15", "mpir.net", "doc"}
# files configure generates at top level (must not leak from the in-tree configured /repo)
GENERATED_TOP = {"config.h", "config.log", "config.status", "config.m4", "libtool", "stamp-h1", "mpir.h",
                 "gmp-mparam.h", "yasm_mac.inc", "Makefile", "fib_table.h", "mp_bases.h", "longlong.h",
                 "fac_ui.h", "gmp.h", "gmpxx.h", "config.in~"}
AUX_LINKS = ["ltmain.sh", "compile", "missing", "install-sh", "test-driver", "depcomp", "ylwrap", "config.guess",
             "config.sub"]

ASAN_FLAGS = "-O1 -g -fsanitize=address -fno-omit-frame-pointer"

VARIANTS = {
    # name: (configure args, CFLAGS or None for configure default, extra env)
    "pin": ([], None),
    "pinO0": ([], "-Wno-error"),
    "asan": ([], ASAN_FLAGS),
    "heaptmp-asan": (["--enable-alloca=malloc-reentrant"], ASAN_FLAGS),
    "rt": ([], "-O2 -DTUNE_PROGRAM_BUILD=1"),
    "cov": ([], "-O0 -g --coverage"),
    "tsan": (["--disable-shared"], "-O1 -g -fsanitize=thread -fPIC"),
    "cxx": (["--enable-cxx"], None),
    "fat": (["--enable-fat"], None),
    "assert": (["--enable-assert"], None),
    "alloca-debug": (["--enable-alloca=debug"], None),
    "alloca-malloc": (["--enable-alloca=malloc-reentrant"], None),
    "alloca-notreent": (["--enable-alloca=malloc-notreentrant"], None),
}
CPUS = ["k8", "k10", "bulldozer", "piledriver", "bobcat", "core2", "penryn", "nehalem", "westmere", "sandybridge",
        "ivybridge", "haswell", "broadwell", "skylake", "atom", "netburst"]
for c in CPUS:
    VARIANTS["cpu-" + c] = (["--build=%s-unknown-linux-gnu" % c], None)


def tree_hash(repo=REPO):
    h = hashlib.sha256()
    n = 0
    for root, dirs, files in os.walk(repo):
        dirs[:] = sorted(d for d in dirs if d not in SKIP_DIRS)
        rel = os.path.relpath(root, repo)
        if rel == "tests" or rel.startswith("tests/") or rel == "tune" or rel.startswith("tune/"):
            # tests/tune are not part of the library artefacts
            dirs[:] = []
            continue
        for f in sorted(files):
            p = os.path.join(root, f)
            if os.path.islink(p):
                continue
            ext = os.path.splitext(f)[1]
            if ext not in SRC_EXT and f != "configure":
                continue
            if rel == "." and f in GENERATED_TOP:
                continue
            h.update(os.path.join(rel, f).encode())
            with open(p, "rb") as fh:
                h.update(fh.read())
            n += 1
    return h.hexdigest()[:20]


def _copy_tree(dst, repo=REPO):
    ex = ["--exclude=.git", "--exclude=*.o", "--exclude=*.lo", "--exclude=*.la", "--exclude=.libs", "--exclude=.deps",
          "--exclude=autom4te.cache", "--exclude=*.log", "--exclude=*.trs", "--exclude=/tests/*/t-*[!.c]",
          "--exclude=build.vc*", "--exclude=mpir.net", "--exclude=*.gcda", "--exclude=*.gcno"]
    subprocess.check_call(["rsync", "-a"] + ex + [repo + "/", dst + "/"])
    # remove what configure generates so that the copy is configured from scratch
    for f in GENERATED_TOP:
        p = os.path.join(dst, f)
        if os.path.lexists(p):
            os.unlink(p)
    for root, dirs, files in os.walk(dst):
        for f in files:
            p = os.path.join(root, f)
            if f == "Makefile":
                os.unlink(p)
            elif os.path.islink(p):
                if os.path.basename(root) == "mpn" and os.path.dirname(root) == dst:
                    os.unlink(p)            # configure-made links into mpn/<path>
                elif root == dst and f in AUX_LINKS:
                    tgt = os.path.realpath(p)
                    os.unlink(p)
                    shutil.copy(tgt, p)
            elif not os.path.splitext(f)[1] and root.startswith(os.path.join(dst, "tests")) and os.access(p, os.X_OK) \
                    and f not in ("configure",):
                # built test executables
                try:
                    with open(p, "rb") as fh:
                        if fh.read(4) == b"\x7fELF":
                            os.unlink(p)
                except OSError:
                    pass


ISA_MACROS = {"__FMA4__": "fma4", "__XOP__": "xop", "__TBM__": "tbm", "__AVX512F__": "avx512f", "__AVX512VL__": "avx512vl",
              "__AVX512BW__": "avx512bw", "__AVX512DQ__": "avx512dq", "__AVX512CD__": "avx512cd", "__AVX2__": "avx2", "__AVX__": "avx",
              "__BMI__": "bmi1", "__BMI2__": "bmi2", "__FMA__": "fma", "__F16C__": "f16c", "__LZCNT__": "abm", "__POPCNT__": "popcnt",
              "__MOVBE__": "movbe", "__SSE4_1__": "sse4_1", "__SSE4_2__": "sse4_2", "__SSSE3__": "ssse3", "__SSE3__": "pni"}


def _makefile_cflags(tree):
    for l in open(os.path.join(tree, "Makefile")):
        if l.startswith("CFLAGS ="):
            return l.split("=", 1)[1].strip()
    return ""


def _host_lacks(cflags):
    """ISA extensions the compiler may use implicitly under these CFLAGS and /proc/cpuinfo does not list"""
    march = [w for w in cflags.split() if w.startswith("-march=")]
    if not march:
        return []
    try:
        r = subprocess.run(["gcc"] + march + ["-dM", "-E", "-x", "c", "/dev/null"], capture_output=True, text=True)
        macros = {l.split()[1] for l in r.stdout.splitlines() if l.startswith("#define ")}
        flags = set()
        for l in open("/proc/cpuinfo"):
            if l.startswith("flags"):
                flags = set(l.split(":", 1)[1].split())
                break
    except Exception:
        return []
    return sorted(f for m, f in ISA_MACROS.items() if m in macros and f not in flags)


def _run(cmd, cwd, env, log):
    with open(log, "ab") as lf:
        lf.write(("\n$ %s\n" % " ".join(cmd)).encode())
        lf.flush()
        r = subprocess.run(cmd, cwd=cwd, env=env, stdout=lf, stderr=subprocess.STDOUT)
    return r.returncode


def get(variant, repo=REPO, quiet=False, keep_tree=False):
    """Return the cache entry for `variant` built from the current working tree of repo."""
    if variant not in VARIANTS:
        raise KeyError(variant)
    th = tree_hash(repo)
    if variant.startswith("cpu-"):
        th = hashlib.sha256((th + "/recipe2").encode()).hexdigest()[:20]      # recipe changed (host-ISA check): older cache entries are not reused
    os.makedirs(CACHE, exist_ok=True)
    ent = os.path.join(CACHE, "%s-%s" % (th, variant))
    lock = open(os.path.join(CACHE, ".lock-%s-%s" % (th, variant)), "w")
    fcntl.flock(lock, fcntl.LOCK_EX)
    try:
        meta = os.path.join(ent, "meta.json")
        if os.path.exists(meta):
            return json.load(open(meta))
        # drop older entries of the same variant (one entry per variant is kept)
        for d in os.listdir(CACHE):
            if d.endswith("-" + variant) and not d.startswith(".lock") and d != os.path.basename(ent):
                shutil.rmtree(os.path.join(CACHE, d), ignore_errors=True)
                try:
                    os.unlink(os.path.join(CACHE, ".lock-" + d))
                except OSError:
                    pass
        t0 = time.time()
        scratch = tempfile.mkdtemp(prefix="mpir-verif-build-%s-" % variant, dir=os.environ.get("VERIF_SCRATCH", "/tmp"))
        try:
            _copy_tree(scratch, repo)
            cargs, cflags = VARIANTS[variant]
            env = dict(os.environ)
            env["ASAN_OPTIONS"] = "detect_leaks=0"
            env.pop("CFLAGS", None)
            env.pop("MAKEFLAGS", None)
            if cflags is not None:
                env["CFLAGS"] = cflags
                if "cxx" in " ".join(cargs):
                    env["CXXFLAGS"] = cflags
            os.makedirs(ent + ".tmp", exist_ok=True)
            log = os.path.join(ent + ".tmp", "build.log")
            if not quiet:
                print("[build] %s from %s (tree %s) ..." % (variant, repo, th), file=sys.stderr, flush=True)
            if _run(["./configure"] + cargs, scratch, env, log) != 0:
                raise RuntimeError("configure failed for variant %s, see %s/last-fail-%s.log" % (variant, CACHE, variant))
            cflags_note = None
            if variant.startswith("cpu-") and cflags is None:
                # configure picks -march=<that cpu>; if the compiler may then emit instructions this host cannot execute
                # (e.g. FMA4/XOP/TBM for bulldozer/piledriver on an Intel host) the C code is compiled without -march/-mtune:
                # the per-CPU assembly path and gmp-mparam.h -- the thing the variant exists for -- stay selected.
                missing = _host_lacks(_makefile_cflags(scratch))
                if missing:
                    base = " ".join(w for w in _makefile_cflags(scratch).split() if not w.startswith(("-march=", "-mtune=", "-mcpu=")))
                    env["CFLAGS"] = base
                    cflags_note = "configure default CFLAGS need %s which this host lacks; C code built with '%s', assembly path unchanged" % (",".join(missing), base)
                    if _run(["./configure"] + cargs, scratch, env, log) != 0:
                        raise RuntimeError("configure failed for variant %s, see %s/last-fail-%s.log" % (variant, CACHE, variant))
            if _run(["make", "-j16"], scratch, env, log) != 0:
                raise RuntimeError("make failed for variant %s, see %s/last-fail-%s.log" % (variant, CACHE, variant))
            out = {"variant": variant, "tree": th, "dir": ent, "built_s": None, "cflags_note": cflags_note}
            libs = os.path.join(scratch, ".libs")
            for f in os.listdir(libs):
                p = os.path.join(libs, f)
                if f.startswith("libmpir") and (f.endswith(".a") or ".so" in f) and not os.path.islink(p):
                    base = "libmpir.a" if f.endswith(".a") else ("libmpirxx.so" if "xx" in f else "libmpir.so")
                    if f.endswith(".a") and "xx" in f:
                        base = "libmpirxx.a"
                    shutil.copy(p, os.path.join(ent + ".tmp", base))
                    out[base] = os.path.join(ent, base)
            # gmp-impl.h is copied too: it includes "config.h" and friends with quotes, which resolve next to the including file first, so
            # harness code compiled against this entry must not pick up the generated headers of /repo's own (differently configured) tree
            for f in ["mpir.h", "config.h", "config.m4", "mpirxx.h", "gmp.h", "gmpxx.h", "fib_table.h", "mp_bases.h",
                      "longlong.h", "fac_ui.h", "config.log", "yasm_mac.inc", "gmp-impl.h", "fat.h"]:
                p = os.path.join(scratch, f)
                if os.path.exists(p):
                    shutil.copy(os.path.realpath(p), os.path.join(ent + ".tmp", f))
            # resolved gmp-mparam.h + record of mpn link targets (which kernel each routine came from)
            shutil.copy(os.path.realpath(os.path.join(scratch, "gmp-mparam.h")), os.path.join(ent + ".tmp", "gmp-mparam.h"))
            out["mparam_src"] = os.path.relpath(os.path.realpath(os.path.join(scratch, "gmp-mparam.h")), scratch)
            links = {}
            mpnd = os.path.join(scratch, "mpn")
            for f in sorted(os.listdir(mpnd)):
                p = os.path.join(mpnd, f)
                if os.path.islink(p):
                    links[f] = os.path.relpath(os.path.realpath(p), scratch)
            out["mpn_links"] = links
            if variant == "cov":
                # coverage build needs the tree (gcno files); keep it next to the entry
                keep_tree = True
            if keep_tree:
                shutil.move(scratch, os.path.join(ent + ".tmp", "tree"))
                out["tree_dir"] = os.path.join(ent, "tree")
            out["built_s"] = round(time.time() - t0, 1)
            out["so"] = out.get("libmpir.so")
            out["a"] = out.get("libmpir.a")
            out["include"] = ent
            json.dump(out, open(os.path.join(ent + ".tmp", "meta.json"), "w"), indent=1)
            if os.path.exists(ent):
                shutil.rmtree(ent)
            os.rename(ent + ".tmp", ent)
            if not quiet:
                print("[build] %s done in %.0fs" % (variant, out["built_s"]), file=sys.stderr, flush=True)
            return out
        except Exception:
            try:
                shutil.copy(os.path.join(ent + ".tmp", "build.log"), os.path.join(CACHE, "last-fail-%s.log" % variant))
            except OSError:
                pass
            raise
        finally:
            shutil.rmtree(scratch, ignore_errors=True)
            shutil.rmtree(ent + ".tmp", ignore_errors=True)
    finally:
        fcntl.flock(lock, fcntl.LOCK_UN)
        lock.close()


if __name__ == "__main__":
    for v in sys.argv[1:]:
        m = get(v)
        print(json.dumps({k: m[k] for k in m if k != "mpn_links"}, indent=1))
