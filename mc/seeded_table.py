"""python3 -m mc.seeded_table  -- markdown table of /verif/seeded/*/meta.json (pasted into DESIGN.md section 8.5)"""
import json, os, glob

ROOT = os.path.dirname(os.path.dirname(os.path.abspath(__file__)))


def main():
    print("| id | file changed | needs, to manifest | outcome | caught by |")
    print("|---|---|---|---|---|")
    for d in sorted(glob.glob(os.path.join(ROOT, "seeded", "*"))):
        mp = os.path.join(d, "meta.json")
        if not os.path.exists(mp):
            continue
        m = json.load(open(mp))
        files = []
        pd = os.path.join(d, "patch.diff")
        if os.path.exists(pd):
            for l in open(pd, errors="replace"):
                if l.startswith("+++ b/"):
                    files.append(l[6:].strip())
        st = m["status"]
        short = "caught by the check as it was" if st == "caught" else ("gap, then caught" if "caught" in st else st)
        print("| %s | `%s` | %s | %s | %s |" % (m["id"], ", ".join(files), m["needs_to_manifest"].replace("|", "/")[:260], short, m["caught_by"].replace("|", "/")[:260]))


if __name__ == "__main__":
    main()
