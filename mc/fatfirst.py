"""python3 -m mc.fatfirst <libmpir.so of an --enable-fat build> <slot name>
In a FRESH process the very first dispatched mpn call is the given cpuvec slot: until then every slot points at its initialiser stub, which
fills the vector and then jumps through "its own" slot.  The call is repeated with the same operands after initialisation; both
observations are printed (the parent compares them, and with the already initialised library).  copyi / copyd use overlapping operands,
the only way the two can be told apart."""
import sys, json, ctypes
from ctypes import c_void_p, c_long, c_uint64
from . import kernels as K, mpnops as mo, alphabet as al

EXTRA_SIG = {
    "divexact_1": "V O:n I:n n lo", "divrem_1": "L O:n K0 I:n n l1", "gcd_1": "L I:n n lo", "mod_1": "L I:n n l1", "mod_34lsub1": "L I:n n",
    "divexact_byfobm1": "L O:n I:n n f bf",
}
SLOTS = ["add_err1_n", "add_err2_n", "add_n", "addmul_1", "copyd", "copyi", "divexact_1", "divexact_by3c", "divexact_byfobm1", "divrem_1", "divrem_2",
         "divrem_euclidean_qr_1", "divrem_euclidean_qr_2", "gcd_1", "lshift", "mod_1", "mod_34lsub1", "modexact_1c_odd", "mul_1", "mul_basecase",
         "mulmid_basecase", "rshift", "sqr_basecase", "sub_err1_n", "sub_err2_n", "sub_n", "submul_1", "sumdiff_n"]
NOT_DRIVEN = ["preinv_divrem_1", "preinv_mod_1", "redc_1"]       # need a precomputed inverse argument; reached through their callers only


def observe(handle, name):
    A = mo.Arena(512)
    G = mo.G
    if name in ("copyi", "copyd"):
        f = getattr(handle, "__gmpn_" + name)
        f.restype = None
        f.argtypes = [c_void_p, c_void_p, c_long]
        n, d = 9, 2
        A.reset(4 * G + n + d)
        v = al.PAT(n + d, 5)["dense"]
        A.put(G, v, n + d)
        if name == "copyi":
            f(A.addr(G), A.addr(G + d), n)           # increasing copy: destination below the source
        else:
            f(A.addr(G + d), A.addr(G), n)           # decreasing copy: destination above the source
        return [A.get(G, n + d)]
    sig = K.SIG.get(name) or EXTRA_SIG[name]
    if name == "divexact_byfobm1":
        f = getattr(handle, "__gmpn_divexact_byfobm1")
        f.restype = c_uint64
        f.argtypes = [c_void_p, c_void_p, c_long, c_uint64, c_uint64]
        n = 7
        A.reset(4 * G + 2 * n)
        v = al.PAT(n, 3)["dense"] * 3 & al.ones(n)
        A.put(G, v, n)
        r = f(A.addr(2 * G + n), A.addr(G), n, 3, al.M // 3)
        return [r, A.get(2 * G + n, n)]
    f = K.bind(handle, name, sig)
    out = []
    sizes = [{"n": 7}, {"n": 16}] if name not in ("mul_basecase", "mulmid_basecase") else [{"un": 9, "vn": 4, "n": 9}, {"un": 16, "vn": 16, "n": 16}]
    if name == "sqr_basecase":
        sizes = [{"n": 7}, {"n": 12}]
    for sz in sizes:
        for k in (1, 2):
            scal = [p for p in K.parse_sig(sig)[1] if p in K.SCALARS]
            sc = {s: K.SCALARS[s][(k + 1) % len(K.SCALARS[s])] for s in scal}
            if "lo" in sc and "l" in sc:
                sc["l"] %= sc["lo"]
            r, outs, intact, ins, env = K.run_case(A, f, name, sig, sz, k, 1, sc)
            out.append([r, [[a, b, c] for a, b, c in outs], intact])
    return out


def main():
    path, name = sys.argv[1], sys.argv[2]
    h = ctypes.CDLL(path)
    first = observe(h, name)
    second = observe(h, name)
    print(json.dumps({"slot": name, "first": first, "second": second}))


if __name__ == "__main__":
    main()
