"""debug helper: time every block of every space in one process (python3 -m mc.prof ID tier variant [space])"""
import sys, time, importlib
from . import explore, lib
pid, tier, variant = sys.argv[1:4]
only = sys.argv[4] if len(sys.argv) > 4 else None
mod = importlib.import_module("mc.props." + pid)
(mod.load if hasattr(mod, "load") else lib.load)(variant)
for sp in mod.spaces(tier, variant, 0):
    if only and sp.name != only:
        continue
    t0 = time.time(); n = 0; slow = []
    for blk in sp.blocks:
        t1 = time.time(); k = 0
        R = explore.Rec()
        for case in sp.cases(blk):
            tc = time.time()
            R.case = case
            sp.one(case, R); k += 1
            if time.time() - tc > 0.5:
                slow.append((round(time.time() - tc, 2), explore.crepr(case)[:150]))
        n += k
        if time.time() - t1 > 3:
            print("   block", explore.crepr(blk)[:80], k, "cases", round(time.time() - t1, 1), "s")
        if R.fails: print("   FAILS", R.fails[:2])
    print(sp.name, len(sp.blocks), "blocks", n, "cases", round(time.time() - t0, 1), "s")
    for s in slow[:5]: print("     slow case", s)
