"""Limb alphabets, content families and shape sets (DESIGN §3).  An n-limb operand is a Python int < B^n."""
import itertools, random

B = 1 << 64
H = 1 << 63
M = B - 1

L3 = (0, 1, M)
L5 = (0, 1, M, H, M - 1)
L9 = L5 + (2, 1 << 32, H - 1, H + 1)


def seeded(seed, k=2):
    r = random.Random(0x5EED0000 + seed)
    return tuple(r.getrandbits(64) | 1 for _ in range(k))


def L11(seed=0):
    return L9 + seeded(seed)


def rep(limb, n):
    """n copies of limb"""
    if n <= 0:
        return 0
    return limb * ((B ** n - 1) // M)


_ones_cache = {}


def ones(n):
    v = _ones_cache.get(n)
    if v is None:
        v = _ones_cache[n] = (1 << (64 * n)) - 1
    return v


def EXH(A, n):
    """every n-limb vector over alphabet A"""
    for t in itertools.product(A, repeat=n):
        v = 0
        for x in reversed(t):
            v = (v << 64) | x
        yield v


def RUN(A, n, r):
    """every n-limb vector consisting of at most r constant runs with values in A (no duplicates)"""
    seen = set()
    for k in range(1, min(r, n) + 1):
        for cuts in itertools.combinations(range(1, n), k - 1):
            bounds = (0,) + cuts + (n,)
            for vals in itertools.product(A, repeat=k):
                if any(vals[i] == vals[i + 1] for i in range(k - 1)):
                    continue
                v = 0
                for i in range(k):
                    ln = bounds[i + 1] - bounds[i]
                    v |= rep(vals[i], ln) << (64 * bounds[i])
                if v not in seen:
                    seen.add(v)
                    yield v


def RUN_list(A, n, r):
    return list(RUN(A, n, r))


def PAT(n, seed=0):
    """named vectors that exist for every n >= 1 (dict name -> value)"""
    top = 64 * n
    r = random.Random(1000003 * n + seed)
    d = {
        "ones": ones(n),
        "Bn-1_pow": 1 << (top - 64),
        "Bn-1_pow+1": (1 << (top - 64)) + 1 if n > 1 else 2,
        "one": 1,
        "bit63": 1 << 63,
        "bitmid": 1 << (64 * (n // 2)),
        "bittop": 1 << (top - 1),
        "0101": int("55" * (8 * n), 16),
        "altlimb": sum(M << (128 * i) for i in range((n + 1) // 2)) & ones(n),
        "Hzeros": H << (top - 64),
        "dense": r.getrandbits(top) | (1 << (top - 1)) | 1,
        "ones-1": ones(n) - 1,
        "lowzero_ones": ones(n) ^ ones(n // 2) if n > 1 else M - 1,
    }
    return d


def PATL(n, seed=0):
    """PAT values as a de-duplicated list, all with exactly n limbs when possible (top limb non-zero variants kept too)"""
    out, seen = [], set()
    for v in PAT(n, seed).values():
        if v not in seen:
            seen.add(v)
            out.append(v)
    return out


def normalized(vals, n):
    """keep only values with exactly n limbs (top limb non-zero)"""
    lo = 1 << (64 * (n - 1))
    return [v for v in vals if v >= lo]


def nl(v):
    return (v.bit_length() + 63) >> 6


def ALL2(N, lo=1):
    return [(un, vn) for un in range(lo, N) for vn in range(lo, un + 1) if un + vn <= N]


def ALLDIV(N):
    return [(nn, dn) for nn in range(1, N + 1) for dn in range(1, nn + 1)]


def chunks(lst, k):
    for i in range(0, len(lst), k):
        yield lst[i:i + k]


def zvals(maxl, A=L5, signs=(1, -1)):
    """0 and every normalised magnitude of 1..maxl limbs over alphabet A, with both signs"""
    vals = [0]
    for n in range(1, maxl + 1):
        for v in EXH(A, n):
            if v >> (64 * (n - 1)):
                for s in signs:
                    vals.append(s * v)
    return vals


def zruns(nmin, nmax, A=L3, r=2, signs=(1, -1)):
    out = []
    for n in range(nmin, nmax + 1):
        for v in RUN(A, n, r):
            if v >> (64 * (n - 1)):
                for s in signs:
                    out.append(s * v)
    return out


def sgn(x):
    return (x > 0) - (x < 0)
