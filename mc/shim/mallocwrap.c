/* LD_PRELOADed in C04's pin pass: every malloc/calloc/realloc/free whose return address lies inside libmpir's text while a
   custom allocator is installed violates "all heap memory through the functions installed with mp_set_memory_functions". */
#define _GNU_SOURCE
#include <stddef.h>
#include <stdint.h>
extern void *__libc_malloc (size_t);
extern void *__libc_calloc (size_t, size_t);
extern void *__libc_realloc (void *, size_t);
extern void __libc_free (void *);
volatile uintptr_t vmw_lo, vmw_hi;
volatile long vmw_hits;
volatile uintptr_t vmw_last;
#define CHECK() do { uintptr_t ra = (uintptr_t) __builtin_return_address (0); if (ra >= vmw_lo && ra < vmw_hi) { vmw_hits++; vmw_last = ra; } } while (0)
void *malloc (size_t n) { CHECK (); return __libc_malloc (n); }
void *calloc (size_t a, size_t b) { CHECK (); return __libc_calloc (a, b); }
void *realloc (void *p, size_t n) { CHECK (); return __libc_realloc (p, n); }
void free (void *p) { CHECK (); __libc_free (p); }
void vmw_set_range (uintptr_t lo, uintptr_t hi) { vmw_lo = lo; vmw_hi = hi; }
long vmw_get_hits (void) { return vmw_hits; }
uintptr_t vmw_get_last (void) { return vmw_last; }
