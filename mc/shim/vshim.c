/* C side of the harness: recording allocator with guard words, wrappers for API macros,
   in-memory FILE* with fault injection.  Built against the mpir.h of the variant under test. */
#define _GNU_SOURCE
#include <stdio.h>
#include <stdlib.h>
#include <string.h>
#include <stdint.h>
#include <stdarg.h>
#include <sys/types.h>
#include <unistd.h>
#include <obstack.h>
#include "mpir.h"

/* ---------------- recording allocator ---------------- */
#define GUARD 32
#define CANARY 0xA5
typedef struct { void *p; size_t n; } blk_t;
static blk_t *tab; static size_t cap;
size_t v_live_blocks, v_live_bytes, v_alloc_calls, v_realloc_calls, v_free_calls;
int v_alloc_errors; char v_alloc_msg[512];
unsigned char v_poison = 0x5C;
int v_trace_allocs;

static void err (const char *fmt, ...)
{
  va_list ap; va_start (ap, fmt);
  if (v_alloc_errors == 0) vsnprintf (v_alloc_msg, sizeof v_alloc_msg, fmt, ap);
  va_end (ap);
  v_alloc_errors++;
}
static size_t hashp (void *p) { uint64_t x = (uint64_t) (uintptr_t) p; x ^= x >> 33; x *= 0xff51afd7ed558ccdULL; x ^= x >> 29; return (size_t) x; }
static void grow (void)
{
  size_t ncap = cap ? cap * 2 : 4096, i; blk_t *nt = calloc (ncap, sizeof *nt);
  for (i = 0; i < cap; i++) if (tab[i].p) { size_t j = hashp (tab[i].p) & (ncap - 1); while (nt[j].p) j = (j + 1) & (ncap - 1); nt[j] = tab[i]; }
  free (tab); tab = nt; cap = ncap;
}
static void put (void *p, size_t n)
{
  size_t j;
  if ((v_live_blocks + 1) * 2 > cap) grow ();
  j = hashp (p) & (cap - 1); while (tab[j].p) j = (j + 1) & (cap - 1);
  tab[j].p = p; tab[j].n = n; v_live_blocks++; v_live_bytes += n;
}
static blk_t *find (void *p)
{
  size_t j; if (!cap) return 0;
  j = hashp (p) & (cap - 1);
  while (tab[j].p) { if (tab[j].p == p) return &tab[j]; j = (j + 1) & (cap - 1); }
  return 0;
}
static void del (blk_t *b)
{
  size_t i = b - tab, j = i;
  v_live_blocks--; v_live_bytes -= b->n;
  tab[i].p = 0;
  for (;;) {
    size_t k;
    j = (j + 1) & (cap - 1);
    if (!tab[j].p) break;
    k = hashp (tab[j].p) & (cap - 1);
    if ((i <= j) ? (i < k && k <= j) : (i < k || k <= j)) continue;
    tab[i] = tab[j]; tab[j].p = 0; i = j;
  }
}
static int guards_ok (unsigned char *u, size_t n)
{
  size_t i;
  for (i = 0; i < GUARD; i++) if (u[-(long) GUARD + (long) i] != CANARY || u[n + i] != CANARY) return 0;
  return 1;
}
void *v_alloc (size_t n)
{
  unsigned char *raw = malloc (n + 2 * GUARD), *u;
  v_alloc_calls++;
  if (!raw) abort ();
  if (n == 0) err ("allocate called with size 0");
  memset (raw, CANARY, GUARD); u = raw + GUARD;
  if (n <= (1u << 20)) memset (u, v_poison, n); else { memset (u, v_poison, 4096); memset (u + n - 4096, v_poison, 4096); }
  memset (u + n, CANARY, GUARD);
  put (u, n);
  return u;
}
void v_free (void *p, size_t n)
{
  blk_t *b = find (p);
  v_free_calls++;
  if (!b) { err ("free of foreign pointer %p (size %zu)", p, n); return; }
  if (b->n != n) err ("free size %zu, block has %zu", n, b->n);
  if (!guards_ok (p, b->n)) err ("guard bytes around block of %zu bytes damaged (seen at free)", b->n);
  if (b->n <= (1u << 20)) memset (p, 0xDD, b->n);
  del (b);
  free ((unsigned char *) p - GUARD);
}
void *v_realloc (void *p, size_t old, size_t new)
{
  blk_t *b = find (p); unsigned char *u; size_t keep;
  v_realloc_calls++;
  if (!b) { err ("realloc of foreign pointer %p (old %zu new %zu)", p, old, new); return v_alloc (new); }
  if (b->n != old) err ("realloc old_size %zu, block has %zu", old, b->n);
  if (new == 0) err ("reallocate called with new size 0");
  if (!guards_ok (p, b->n)) err ("guard bytes around block of %zu bytes damaged (seen at realloc)", b->n);
  keep = b->n < new ? b->n : new;
  u = v_alloc (new); v_alloc_calls--;
  memcpy (u, p, keep);
  if (b->n <= (1u << 20)) memset (p, 0xDD, b->n);
  del (find (p));
  free ((unsigned char *) p - GUARD);
  return u;
}
int v_check_guards (void)
{
  size_t i; int bad = 0;
  for (i = 0; i < cap; i++) if (tab[i].p && !guards_ok (tab[i].p, tab[i].n)) { bad++; err ("guard bytes around live block of %zu bytes damaged", tab[i].n); }
  return bad;
}
size_t v_block_size (void *p) { blk_t *b = find (p); return b ? b->n : (size_t) -1; }
void v_install (void) { mp_set_memory_functions (v_alloc, v_realloc, v_free); }
void v_uninstall (void) { mp_set_memory_functions (0, 0, 0); }
void v_reset_errors (void) { v_alloc_errors = 0; v_alloc_msg[0] = 0; }

/* ---------------- wrappers for API macros / inlines ---------------- */
int v_mpz_sgn (mpz_srcptr z) { return mpz_sgn (z); }
int v_mpq_sgn (mpq_srcptr z) { return mpq_sgn (z); }
int v_mpf_sgn (mpf_srcptr z) { return mpf_sgn (z); }
int v_mpz_odd_p (mpz_srcptr z) { return mpz_odd_p (z); }
int v_mpz_even_p (mpz_srcptr z) { return mpz_even_p (z); }
int v_mpz_cmp_ui (mpz_srcptr z, unsigned long u) { return mpz_cmp_ui (z, u); }
int v_mpz_cmp_si (mpz_srcptr z, long u) { return mpz_cmp_si (z, u); }
int v_mpq_cmp_ui (mpq_srcptr z, unsigned long n, unsigned long d) { return mpq_cmp_ui (z, n, d); }
int v_mpq_cmp_si (mpq_srcptr z, long n, unsigned long d) { return mpq_cmp_si (z, n, d); }
/* the constant-folding branches of the cmp macros */
int v_mpz_cmp_ui0 (mpz_srcptr z) { return mpz_cmp_ui (z, 0); }
int v_mpz_cmp_si0 (mpz_srcptr z) { return mpz_cmp_si (z, 0); }
int v_mpq_cmp_ui01 (mpq_srcptr z) { return mpq_cmp_ui (z, 0, 1); }
int v_mpq_cmp_ui11 (mpq_srcptr z) { return mpq_cmp_ui (z, 1, 1); }
int v_mpq_cmp_si01 (mpq_srcptr z) { return mpq_cmp_si (z, 0, 1); }

/* ---------------- in-memory streams with fault injection ---------------- */
typedef struct {
  unsigned char *buf; size_t len, pos, cap;
  long limit;        /* reading: bytes available before EOF / error; writing: bytes accepted before failure; <0 = none */
  int fail_errno;    /* reading: 0 = EOF at limit, 1 = error at limit */
  size_t chunk;      /* reading: max bytes per read call (0 = any), models short reads */
  int faults;        /* number of times the fault fired */
} vstream;

static ssize_t vs_read (void *c, char *b, size_t n)
{
  vstream *s = c; size_t avail = s->len - s->pos;
  if (s->limit >= 0) { size_t lim = (size_t) s->limit > s->pos ? (size_t) s->limit - s->pos : 0; if (avail > lim) { avail = lim; } }
  if (n > avail) n = avail;
  if (s->chunk && n > s->chunk) n = s->chunk;
  if (n == 0) { if (s->limit >= 0 && s->pos >= (size_t) s->limit && s->pos < s->len) { s->faults++; if (s->fail_errno) return -1; } return 0; }
  memcpy (b, s->buf + s->pos, n); s->pos += n; return n;
}
static ssize_t vs_write (void *c, const char *b, size_t n)
{
  vstream *s = c; size_t take = n;
  if (s->limit >= 0) { size_t room = (size_t) s->limit > s->len ? (size_t) s->limit - s->len : 0; if (take > room) take = room; }
  if (s->len + take > s->cap) { s->cap = (s->len + take) * 2 + 64; s->buf = realloc (s->buf, s->cap); }
  memcpy (s->buf + s->len, b, take); s->len += take;
  if (take < n) { s->faults++; return take ? (ssize_t) take : 0; }
  return n;
}
static int vs_close (void *c) { return 0; }

vstream *v_stream_new (void) { vstream *s = calloc (1, sizeof *s); s->limit = -1; return s; }
void v_stream_free (vstream *s) { free (s->buf); free (s); }
FILE *v_open_read (vstream *s, const unsigned char *data, size_t len, long limit, int as_error, size_t chunk, int buffered)
{
  cookie_io_functions_t io = { vs_read, 0, 0, vs_close }; FILE *f;
  free (s->buf); s->buf = malloc (len + 1); s->cap = len + 1; memcpy (s->buf, data, len); s->len = len; s->pos = 0; s->limit = limit;
  s->fail_errno = as_error; s->chunk = chunk; s->faults = 0;
  f = fopencookie (s, "r", io);
  if (!buffered) setvbuf (f, 0, _IONBF, 0);
  return f;
}
FILE *v_open_write (vstream *s, long limit, int buffered)
{
  cookie_io_functions_t io = { 0, vs_write, 0, vs_close }; FILE *f;
  s->len = 0; s->pos = 0; s->limit = limit; s->faults = 0;
  f = fopencookie (s, "w", io);
  if (!buffered) setvbuf (f, 0, _IONBF, 0);
  return f;
}
size_t v_stream_len (vstream *s) { return s->len; }
size_t v_stream_pos (vstream *s) { return s->pos; }
int v_stream_faults (vstream *s) { return s->faults; }
const unsigned char *v_stream_data (vstream *s) { return s->buf; }
int v_fclose (FILE *f) { return fclose (f); }
int v_ferror (FILE *f) { return ferror (f); }
int v_feof (FILE *f) { return feof (f); }
long v_ftell_consumed (FILE *f, vstream *s) { return (long) s->pos; }
int v_getc (FILE *f) { return getc (f); }


/* ---------------- va_list entry points of the formatted I/O family (reached through thin variadic wrappers) ---------------- */
#define obstack_chunk_alloc malloc
#define obstack_chunk_free free
int v_vsnprintf (char *buf, size_t size, const char *fmt, ...) { va_list ap; int r; va_start (ap, fmt); r = gmp_vsnprintf (buf, size, fmt, ap); va_end (ap); return r; }
int v_vsprintf (char *buf, const char *fmt, ...) { va_list ap; int r; va_start (ap, fmt); r = gmp_vsprintf (buf, fmt, ap); va_end (ap); return r; }
int v_vasprintf (char **pp, const char *fmt, ...) { va_list ap; int r; va_start (ap, fmt); r = gmp_vasprintf (pp, fmt, ap); va_end (ap); return r; }
int v_vfprintf (FILE *fp, const char *fmt, ...) { va_list ap; int r; va_start (ap, fmt); r = gmp_vfprintf (fp, fmt, ap); va_end (ap); return r; }
int v_vsscanf (const char *s, const char *fmt, ...) { va_list ap; int r; va_start (ap, fmt); r = gmp_vsscanf (s, fmt, ap); va_end (ap); return r; }
int v_fscanf (FILE *fp, const char *fmt, ...) { va_list ap; int r; va_start (ap, fmt); r = gmp_vfscanf (fp, fmt, ap); va_end (ap); return r; }
/* obstack: returns length, copies the grown object into out (at most cap bytes) */
int v_obstack_printf (char *out, size_t cap, int use_v, const char *fmt, ...)
{
  struct obstack ob; va_list ap; int r; size_t n; char *base;
  obstack_init (&ob);
  if (use_v > 0)
    {
      /* an earlier, finished object of use_v bytes: positions the growing object anywhere relative to the end of the current chunk */
      obstack_blank (&ob, use_v);
      memset (obstack_base (&ob), '#', use_v);
      (void) obstack_finish (&ob);
    }
  obstack_grow (&ob, "pre:", 4);
  va_start (ap, fmt);
  r = gmp_obstack_vprintf (&ob, fmt, ap);
  va_end (ap);
  n = obstack_object_size (&ob);
  base = obstack_finish (&ob);
  if (n > cap) n = cap;
  memcpy (out, base, n);
  if (n < cap) out[n] = 0;
  obstack_free (&ob, 0);
  return r;
}
/* gmp_printf / gmp_vprintf write to stdout: run them with stdout redirected into a pipe-less temporary file */
int v_printf_capture (char *out, size_t cap, const char *fmt, ...)
{
  va_list ap; int r, saved; FILE *tmp = tmpfile (); long n;
  if (!tmp) return -2;
  fflush (stdout);
  saved = dup (1);
  dup2 (fileno (tmp), 1);
  va_start (ap, fmt);
  r = gmp_vprintf (fmt, ap);
  va_end (ap);
  fflush (stdout);
  dup2 (saved, 1); close (saved);
  n = ftell (tmp); if (n < 0) n = 0;
  rewind (tmp);
  if ((size_t) n > cap - 1) n = cap - 1;
  n = fread (out, 1, n, tmp); out[n] = 0;
  fclose (tmp);
  return r;
}

/* ---------------- write monitor (C15 api sweep): libmpir's writable static segment and an arena of shared inputs are mapped
   read-only around a call; a write traps (SIGSEGV), is counted with its address and pc, is let through by single-stepping the
   instruction with the page open, and the page is protected again in the SIGTRAP handler.  Needs LD_BIND_NOW (no lazy PLT writes). */
#include <signal.h>
#include <link.h>
#include <ucontext.h>
#include <sys/mman.h>
static struct { uintptr_t lo, hi; } mon_prot[8]; static int mon_nprot;
static char *mon_arena_p; static size_t mon_arena_len;
static volatile int mon_on_;
static volatile long mon_traps_; static uintptr_t mon_addr[16], mon_rip[16]; static int mon_kind[16];
static uintptr_t mon_step_page;
static int mon_phdr (struct dl_phdr_info *info, size_t sz, void *d)
{
  int i;
  if (!info->dlpi_name || !strstr (info->dlpi_name, "libmpir.so")) return 0;
  for (i = 0; i < info->dlpi_phnum && mon_nprot < 8; i++)
    if (info->dlpi_phdr[i].p_type == PT_LOAD && (info->dlpi_phdr[i].p_flags & PF_W))
      {
        uintptr_t a = info->dlpi_addr + info->dlpi_phdr[i].p_vaddr, b = a + info->dlpi_phdr[i].p_memsz;
        mon_prot[mon_nprot].lo = a & ~(uintptr_t) 4095; mon_prot[mon_nprot].hi = (b + 4095) & ~(uintptr_t) 4095; mon_nprot++;
      }
  return 0;
}
static void mon_segv (int sig, siginfo_t *si, void *uc_)
{
  ucontext_t *uc = uc_; uintptr_t a = (uintptr_t) si->si_addr; int i, inside = 0;
  for (i = 0; i < mon_nprot; i++) if (a >= mon_prot[i].lo && a < mon_prot[i].hi) inside = 1;
  if (mon_arena_p && a >= (uintptr_t) mon_arena_p && a < (uintptr_t) mon_arena_p + mon_arena_len) inside = 2;
  if (!mon_on_ || !inside) { signal (SIGSEGV, SIG_DFL); return; }
  if (mon_traps_ < 16) { mon_addr[mon_traps_] = a; mon_rip[mon_traps_] = uc->uc_mcontext.gregs[REG_RIP]; mon_kind[mon_traps_] = inside; }
  mon_traps_++;
  mon_step_page = a & ~(uintptr_t) 4095;
  mprotect ((void *) mon_step_page, 4096, PROT_READ | PROT_WRITE);
  uc->uc_mcontext.gregs[REG_EFL] |= 0x100;
}
static void mon_trap (int sig, siginfo_t *si, void *uc_)
{
  ucontext_t *uc = uc_;
  if (mon_step_page) { mprotect ((void *) mon_step_page, 4096, PROT_READ); mon_step_page = 0; }
  uc->uc_mcontext.gregs[REG_EFL] &= ~0x100;
}
int v_mon_init (size_t arena_bytes)
{
  struct sigaction sa;
  if (mon_nprot == 0) dl_iterate_phdr (mon_phdr, 0);
  if (!mon_arena_p)
    {
      mon_arena_len = (arena_bytes + 4095) & ~(size_t) 4095;
      mon_arena_p = mmap (0, mon_arena_len, PROT_READ | PROT_WRITE, MAP_PRIVATE | MAP_ANONYMOUS, -1, 0);
      if (mon_arena_p == MAP_FAILED) { mon_arena_p = 0; return -1; }
    }
  memset (&sa, 0, sizeof sa); sa.sa_flags = SA_SIGINFO | SA_NODEFER; sigemptyset (&sa.sa_mask);
  sa.sa_sigaction = mon_segv; sigaction (SIGSEGV, &sa, 0);
  sa.sa_sigaction = mon_trap; sigaction (SIGTRAP, &sa, 0);
  return mon_nprot;
}
void *v_mon_arena (void) { return mon_arena_p; }
size_t v_mon_arena_len (void) { return mon_arena_len; }
void v_mon_set (int on)
{
  int i;
  for (i = 0; i < mon_nprot; i++) mprotect ((void *) mon_prot[i].lo, mon_prot[i].hi - mon_prot[i].lo, on ? PROT_READ : PROT_READ | PROT_WRITE);
  if (mon_arena_p) mprotect (mon_arena_p, mon_arena_len, on ? PROT_READ : PROT_READ | PROT_WRITE);
  mon_on_ = on;
}
long v_mon_traps (void) { return mon_traps_; }
void v_mon_reset (void) { mon_traps_ = 0; }
uintptr_t v_mon_trap_addr (int i) { return mon_addr[i]; }
uintptr_t v_mon_trap_rip (int i) { return mon_rip[i]; }
int v_mon_trap_kind (int i) { return mon_kind[i]; }
uintptr_t v_mon_seg_lo (int i) { return i < mon_nprot ? mon_prot[i].lo : 0; }
uintptr_t v_mon_seg_hi (int i) { return i < mon_nprot ? mon_prot[i].hi : 0; }
/* one call under the monitor: up to 6 word-sized arguments (all the table needs), result returned as a word; double-taking
   functions are called from Python directly between v_mon_set(1) / v_mon_set(0) */
