"""ctypes bindings to the library under test plus marshalling between Python ints and MPIR objects.

Marshalling is by direct access to the struct fields (never through mpz_import/set_str ...), so that the
functions under test are not part of the harness's trusted path.
"""
import ctypes, os, subprocess, sys, hashlib
from ctypes import (c_int, c_long, c_ulong, c_void_p, c_char_p, c_size_t, c_double, c_uint64, c_int64, byref,
                    POINTER, Structure, string_at, memmove, addressof, cast)
from fractions import Fraction

from . import build

HERE = os.path.dirname(os.path.abspath(__file__))
LIMB_BITS = 64
B = 1 << 64
MASK = B - 1


class MPZ(Structure):
    _fields_ = [("alloc", c_int), ("size", c_int), ("d", c_void_p)]


class MPQ(Structure):
    _fields_ = [("num", MPZ), ("den", MPZ)]


class MPF(Structure):
    _fields_ = [("prec", c_int), ("size", c_int), ("exp", c_long), ("d", c_void_p)]


class RandState(Structure):
    _fields_ = [("seed", MPZ), ("alg", c_int), ("algdata", c_void_p)]


L = None          # the library
S = None          # the shim
META = None
VARIANT = None


def _build_shim(meta, extra_cflags=()):
    src = os.path.join(HERE, "shim", "vshim.c")
    h = hashlib.sha256(open(src, "rb").read() + " ".join(extra_cflags).encode()).hexdigest()[:12]
    out = os.path.join(meta["dir"], "vshim-%s.so" % h)
    if not os.path.exists(out):
        tmp = out + ".%d.tmp" % os.getpid()
        cmd = ["gcc", "-O1", "-g", "-fPIC", "-shared", "-I", meta["include"], "-o", tmp, src] + list(extra_cflags)
        subprocess.check_call(cmd)
        os.rename(tmp, out)
    return out


def load(variant="pin", install_allocator=True, pre_global=None):
    """Build (if needed) and load the variant; returns (L, S)."""
    global L, S, META, VARIANT
    if variant == "pin" and os.environ.get("VERIF_PIN_AS"):
        variant = os.environ["VERIF_PIN_AS"]           # development aid: run the pin passes against e.g. the gcov build
    meta = build.get(variant)
    if pre_global:
        for p in pre_global:
            ctypes.CDLL(p, mode=ctypes.RTLD_GLOBAL)
    L = ctypes.CDLL(meta["so"], mode=ctypes.RTLD_GLOBAL)
    extra = ["-fsanitize=address"] if "asan" in variant else []
    S = ctypes.CDLL(_build_shim(meta, extra), mode=ctypes.RTLD_GLOBAL)
    META, VARIANT = meta, variant
    _proto()
    if install_allocator:
        S.v_install()
    return L, S


_sym_cache = {}


def sym(name):
    """Resolve a public name (mpz_add, mpn_mul, gmp_snprintf, ...) to the exported function."""
    f = _sym_cache.get(name)
    if f is not None:
        return f
    for pre in ("mpz_", "mpq_", "mpf_", "mpn_"):
        if name.startswith(pre):
            real = "__g" + name
            break
    else:
        if name.startswith("gmp_") or name.startswith("mp_"):
            real = "__g" + name if name.startswith("mp_") else "__" + name
        elif name.startswith("_mpz_") or name.startswith("_mpq_"):
            real = "__g" + name[1:]
        else:
            real = name
    try:
        f = getattr(L, real)
    except AttributeError:
        f = getattr(L, name)
    _sym_cache[name] = f
    return f


def has(name):
    try:
        sym(name)
        return True
    except AttributeError:
        return False


def fn(name, restype=None, *argtypes):
    f = sym(name)
    f.restype = restype
    if argtypes:
        f.argtypes = list(argtypes)
    return f


P = c_void_p   # object pointers are passed as raw addresses (fastest)


def _proto():
    S.v_alloc.restype = c_void_p
    S.v_alloc.argtypes = [c_size_t]
    S.v_free.argtypes = [c_void_p, c_size_t]
    S.v_free.restype = None
    S.v_block_size.restype = c_size_t
    S.v_block_size.argtypes = [c_void_p]
    S.v_stream_new.restype = c_void_p
    S.v_stream_free.argtypes = [c_void_p]
    S.v_open_read.restype = c_void_p
    S.v_open_read.argtypes = [c_void_p, c_char_p, c_size_t, c_long, c_int, c_size_t, c_int]
    S.v_open_write.restype = c_void_p
    S.v_open_write.argtypes = [c_void_p, c_long, c_int]
    S.v_stream_len.restype = c_size_t
    S.v_stream_len.argtypes = [c_void_p]
    S.v_stream_pos.restype = c_size_t
    S.v_stream_pos.argtypes = [c_void_p]
    S.v_stream_faults.argtypes = [c_void_p]
    S.v_stream_data.restype = c_void_p
    S.v_stream_data.argtypes = [c_void_p]
    S.v_fclose.argtypes = [c_void_p]
    S.v_ferror.argtypes = [c_void_p]
    S.v_feof.argtypes = [c_void_p]
    S.v_getc.argtypes = [c_void_p]
    for n in ("v_mpz_sgn", "v_mpq_sgn", "v_mpf_sgn", "v_mpz_odd_p", "v_mpz_even_p", "v_mpz_cmp_ui0", "v_mpz_cmp_si0",
              "v_mpq_cmp_ui01", "v_mpq_cmp_ui11", "v_mpq_cmp_si01"):
        getattr(S, n).argtypes = [c_void_p]
    S.v_mpz_cmp_ui.argtypes = [c_void_p, c_ulong]
    S.v_mpz_cmp_si.argtypes = [c_void_p, c_long]
    S.v_mpq_cmp_ui.argtypes = [c_void_p, c_ulong, c_ulong]
    S.v_mpq_cmp_si.argtypes = [c_void_p, c_long, c_ulong]
    for n, rt, at in [
        ("mpz_init", None, [P]), ("mpz_clear", None, [P]), ("mpz_realloc2", None, [P, c_ulong]),
        ("_mpz_realloc", c_void_p, [P, c_long]), ("mpz_init2", None, [P, c_ulong]),
        ("mpq_init", None, [P]), ("mpq_clear", None, [P]),
        ("mpf_init2", None, [P, c_ulong]), ("mpf_clear", None, [P]), ("mpf_init", None, [P]),
    ]:
        fn(n, rt, *at)
    global zinit, zclear, zrealloc, qinit, qclear, finit2, fclear
    zinit, zclear, zrealloc = sym("mpz_init"), sym("mpz_clear"), sym("_mpz_realloc")
    qinit, qclear, finit2, fclear = sym("mpq_init"), sym("mpq_clear"), sym("mpf_init2"), sym("mpf_clear")


def alloc_state():
    return (c_size_t.in_dll(S, "v_live_blocks").value, c_int.in_dll(S, "v_alloc_errors").value)


def alloc_errors():
    return c_int.in_dll(S, "v_alloc_errors").value


def alloc_msg():
    return ctypes.string_at(addressof(ctypes.c_char.in_dll(S, "v_alloc_msg"))).decode("latin1")


def live_blocks():
    return c_size_t.in_dll(S, "v_live_blocks").value


def set_poison(b):
    ctypes.c_ubyte.in_dll(S, "v_poison").value = b


def nlimbs(v):
    return (v.bit_length() + 63) >> 6


def int_to_bytes(v, n):
    return v.to_bytes(n * 8, "little")


class Z:
    """A real mpz_t owned by the harness."""
    __slots__ = ("s", "p")

    def __init__(self, v=0, alloc=None):
        self.s = MPZ()
        self.p = addressof(self.s)
        zinit(self.p)
        if v or alloc:
            self.set(v, alloc)

    def set(self, v, alloc=None):
        a = -v if v < 0 else v
        n = (a.bit_length() + 63) >> 6
        s = self.s
        want = alloc if alloc is not None else max(n, 1)
        if want < n:
            want = n
        if alloc is not None:
            if s.alloc != want:
                s.size = 0
                zrealloc(self.p, want)
        elif s.alloc < want:
            s.size = 0
            zrealloc(self.p, want)
        if n:
            memmove(s.d, a.to_bytes(n * 8, "little"), n * 8)
        s.size = -n if v < 0 else n
        return self

    def get(self):
        s = self.s
        n = s.size
        if n == 0:
            return 0
        if n < 0:
            return -int.from_bytes(string_at(s.d, -n * 8), "little")
        return int.from_bytes(string_at(s.d, n * 8), "little")

    def wf(self):
        """well-formedness (MPZ_CHECK_FORMAT): returns None or a message"""
        s = self.s
        n = abs(s.size)
        if s.alloc < 1:
            return "alloc %d < 1" % s.alloc
        if n > s.alloc:
            return "size %d > alloc %d" % (n, s.alloc)
        if n and int.from_bytes(string_at(s.d + (n - 1) * 8, 8), "little") == 0:
            return "top limb zero (size %d)" % s.size
        bs = S.v_block_size(s.d)
        if bs != (1 << 64) - 1 and bs != s.alloc * 8:
            return "alloc field %d limbs but block has %d bytes" % (s.alloc, bs)
        return None

    def poison_tail(self, byte):
        s = self.s
        n = abs(s.size)
        if s.alloc > n:
            ctypes.memset(s.d + n * 8, byte, (s.alloc - n) * 8)

    def clear(self):
        zclear(self.p)

    def __del__(self):
        try:
            if self.s.d:
                zclear(self.p)
                self.s.d = None
        except Exception:
            pass


def zget(p):
    """read value of the mpz at address p"""
    s = MPZ.from_address(p)
    n = s.size
    if n == 0:
        return 0
    if n < 0:
        return -int.from_bytes(string_at(s.d, -n * 8), "little")
    return int.from_bytes(string_at(s.d, n * 8), "little")


class Q:
    __slots__ = ("s", "p", "np", "dp")

    def __init__(self, v=None, num=None, den=None):
        self.s = MPQ()
        self.p = addressof(self.s)
        qinit(self.p)
        self.np = self.p
        self.dp = self.p + ctypes.sizeof(MPZ)
        if v is not None:
            self.set(v.numerator, v.denominator)
        elif num is not None:
            self.set(num, den)

    def set(self, num, den, nalloc=None, dalloc=None):
        _zset_at(self.np, num, nalloc)
        _zset_at(self.dp, den, dalloc)
        return self

    def get(self):
        return Fraction(zget(self.np), zget(self.dp))

    def raw(self):
        return (zget(self.np), zget(self.dp))

    def wf(self, canonical=True):
        for nm, p in (("num", self.np), ("den", self.dp)):
            m = _zwf_at(p)
            if m:
                return nm + ": " + m
        if canonical:
            n, d = self.raw()
            if d <= 0:
                return "denominator %d not positive" % d
            import math
            if math.gcd(n, d) != 1:
                return "not in lowest terms"
        return None

    def clear(self):
        qclear(self.p)

    def __del__(self):
        try:
            if self.s.num.d:
                qclear(self.p)
                self.s.num.d = None
        except Exception:
            pass


def _zset_at(p, v, alloc=None):
    s = MPZ.from_address(p)
    a = -v if v < 0 else v
    n = (a.bit_length() + 63) >> 6
    want = alloc if alloc is not None else max(n, 1)
    if want < n:
        want = n
    if (alloc is not None and s.alloc != want) or s.alloc < want:
        s.size = 0
        zrealloc(p, want)
    if n:
        memmove(s.d, a.to_bytes(n * 8, "little"), n * 8)
    s.size = -n if v < 0 else n


def _zwf_at(p):
    s = MPZ.from_address(p)
    n = abs(s.size)
    if s.alloc < 1:
        return "alloc %d < 1" % s.alloc
    if n > s.alloc:
        return "size %d > alloc %d" % (n, s.alloc)
    if n and int.from_bytes(string_at(s.d + (n - 1) * 8, 8), "little") == 0:
        return "top limb zero (size %d)" % s.size
    bs = S.v_block_size(s.d)
    if bs != (1 << 64) - 1 and bs != s.alloc * 8:
        return "alloc field %d limbs but block has %d bytes" % (s.alloc, bs)
    return None


class F:
    """A real mpf_t.  Value = mantissa(int of |size| limbs) * 2^(64*(exp-|size|))."""
    __slots__ = ("s", "p")

    def __init__(self, prec_bits=64):
        self.s = MPF()
        self.p = addressof(self.s)
        finit2(self.p, prec_bits)

    def set_raw(self, mant, exp, neg=False):
        """store limbs of mant (top limb must be non-zero, nlimbs<=prec+1) with limb exponent exp"""
        s = self.s
        n = (mant.bit_length() + 63) >> 6
        assert n <= s.prec + 1, (n, s.prec)
        if n:
            memmove(s.d, mant.to_bytes(n * 8, "little"), n * 8)
        s.size = -n if neg else n
        s.exp = exp if n else 0
        return self

    def set_frac(self, v, pad=0):
        """store the exact value v (Fraction with 2-power denominator); must fit in prec+1 limbs; low zero limbs stripped,
        then `pad` zero limbs appended at the low end (a legal, non-minimal representation of the same value)"""
        v = Fraction(v)
        if v == 0:
            self.s.size = 0
            self.s.exp = 0
            return self
        neg = v < 0
        a = -v if neg else v
        num, den = a.numerator, a.denominator
        assert den & (den - 1) == 0
        sh = den.bit_length() - 1          # value = num / 2^sh
        # align to limb boundary
        k = (-sh) % 64
        num <<= k
        sh += k                             # now sh multiple of 64
        low = sh // 64                      # number of fractional limbs
        # strip low zero limbs
        while num & MASK == 0:
            num >>= 64
            low -= 1
        if pad:
            num <<= 64 * pad
            low += pad
        n = (num.bit_length() + 63) >> 6
        return self.set_raw(num, n - low, neg)

    def get(self):
        s = self.s
        n = s.size
        if n == 0:
            return Fraction(0)
        a = abs(n)
        m = int.from_bytes(string_at(s.d, a * 8), "little")
        e = 64 * (s.exp - a)
        v = Fraction(m << e) if e >= 0 else Fraction(m, 1 << -e)
        return -v if n < 0 else v

    def wf(self):
        s = self.s
        a = abs(s.size)
        if s.prec < 1:
            return "prec %d" % s.prec
        if a > s.prec + 1:
            return "size %d > prec+1 = %d" % (a, s.prec + 1)
        if a == 0:
            if s.exp != 0:
                return "zero with exponent %d" % s.exp
            return None
        if int.from_bytes(string_at(s.d + (a - 1) * 8, 8), "little") == 0:
            return "top limb zero (size %d)" % s.size
        return None

    def clear(self):
        fclear(self.p)

    def __del__(self):
        try:
            if self.s.d:
                fclear(self.p)
                self.s.d = None
        except Exception:
            pass


GUARDL = 4
CANARY_LIMB = 0xC0DEC0DEC0DEC0DE
_canary_bytes = CANARY_LIMB.to_bytes(8, "little") * GUARDL


class Buf:
    """n-limb buffer between canary limbs."""
    __slots__ = ("arr", "n", "base", "p")

    def __init__(self, n):
        self.n = n
        self.arr = (c_uint64 * (n + 2 * GUARDL))()
        self.base = addressof(self.arr)
        self.p = self.base + 8 * GUARDL
        memmove(self.base, _canary_bytes, 8 * GUARDL)
        memmove(self.p + 8 * n, _canary_bytes, 8 * GUARDL)

    def set(self, v, n=None):
        n = self.n if n is None else n
        memmove(self.p, v.to_bytes(n * 8, "little"), n * 8)

    def fill(self, byte):
        ctypes.memset(self.p, byte, self.n * 8)

    def get(self, n=None, off=0):
        n = self.n if n is None else n
        return int.from_bytes(string_at(self.p + 8 * off, n * 8), "little")

    def ok(self):
        return string_at(self.base, 8 * GUARDL) == _canary_bytes and string_at(self.p + 8 * self.n, 8 * GUARDL) == _canary_bytes


def c_long_wrap(v):
    v &= MASK
    return v - B if v >> 63 else v
