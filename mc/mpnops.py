"""mpn-level call machinery: an arena of limbs with canaries, operand placement with every permitted overlap,
and Python reference definitions of the basic limb-vector functions (used by C03, C10, C05 and C14)."""
import ctypes
from ctypes import c_uint64, c_void_p, c_long, c_int, c_uint, c_ulong, addressof, memmove, string_at

B = 1 << 64
M = B - 1
CAN = 0xC0DEC0DEFACEFEED
CANB = CAN.to_bytes(8, "little")


class Arena:
    def __init__(self, nl=4096):
        self.nl = nl
        self.buf = (c_uint64 * nl)()
        self.base = addressof(self.buf)
        self.canary = CANB * nl

    def reset(self, upto=None):
        n = self.nl if upto is None else min(self.nl, upto)
        memmove(self.base, self.canary, 8 * n)

    def put(self, off, v, n):
        memmove(self.base + 8 * off, v.to_bytes(8 * n, "little"), 8 * n)

    def get(self, off, n):
        return int.from_bytes(string_at(self.base + 8 * off, 8 * n), "little")

    def addr(self, off):
        return self.base + 8 * off

    def untouched(self, upto, ranges):
        """True iff every limb of [0,upto) outside the given (off,n) ranges still holds the canary"""
        raw = string_at(self.base, 8 * upto)
        pos = 0
        for off, n in sorted(ranges):
            if off > pos and raw[8 * pos:8 * off] != self.canary[:8 * (off - pos)]:
                return False
            pos = max(pos, off + n)
        if pos < upto and raw[8 * pos:8 * upto] != self.canary[:8 * (upto - pos)]:
            return False
        return True


G = 8   # guard limbs between regions


def ones(n):
    return (1 << (64 * n)) - 1


# ---------- reference semantics: name -> (class, ref) ----------
# class n2 : limb f(rp, s1, s2, n)          ref(a,b,n) -> (ret, r)
# class n1 : limb f(rp, sp, n)              ref(a,n) -> (ret, r)
# class sh : limb f(rp, sp, n, cnt)         ref(a,n,c) -> (ret, r)
# class l1 : limb f(rp, sp, n, limb)        ref(a,n,l) -> (ret, r)
# class l1a: limb f(rp, sp, n, limb) rp in/out   ref(r0,a,n,l) -> (ret, r)
# class ao : limb f(rp, s1, n1, s2, n2)     ref(a,n1,b,n2) -> (ret, r)
# class n3 : f(rp, a, b, c, n)              ref(a,b,c,n) -> (ret, r)
# class sd : limb f(rp1, rp2, s1, s2, n)    ref(a,b,n) -> (ret, r1, r2)

def _addn(a, b, n):
    s = a + b
    return s >> (64 * n), s & ones(n)


def _subn(a, b, n):
    s = a - b
    return (1 if s < 0 else 0), s & ones(n)


REF = {
    "add_n": ("n2", _addn),
    "sub_n": ("n2", _subn),
    "and_n": ("n2v", lambda a, b, n: (None, a & b)),
    "andn_n": ("n2v", lambda a, b, n: (None, a & ~b & ones(n))),
    "nand_n": ("n2v", lambda a, b, n: (None, ~(a & b) & ones(n))),
    "ior_n": ("n2v", lambda a, b, n: (None, a | b)),
    "iorn_n": ("n2v", lambda a, b, n: (None, (a | ~b) & ones(n))),
    "nior_n": ("n2v", lambda a, b, n: (None, ~(a | b) & ones(n))),
    "xor_n": ("n2v", lambda a, b, n: (None, a ^ b)),
    "xnor_n": ("n2v", lambda a, b, n: (None, ~(a ^ b) & ones(n))),
    "copyi": ("n1v", lambda a, n: (None, a)),
    "copyd": ("n1v", lambda a, n: (None, a)),
    "com_n": ("n1v", lambda a, n: (None, ~a & ones(n))),
    "neg_n": ("n1", lambda a, n: ((1 if a else 0), (-a) & ones(n))),
    "lshift": ("sh", lambda a, n, c: ((a << c) >> (64 * n), (a << c) & ones(n))),
    "rshift": ("sh", lambda a, n, c: (((a << 64) >> c) & M, a >> c)),
    "add_1": ("l1", lambda a, n, l: ((a + l) >> (64 * n), (a + l) & ones(n))),
    "sub_1": ("l1", lambda a, n, l: ((1 if a < l else 0), (a - l) & ones(n))),
    "mul_1": ("l1", lambda a, n, l: ((a * l) >> (64 * n), (a * l) & ones(n))),
    "addmul_1": ("l1a", lambda r, a, n, l: ((r + a * l) >> (64 * n), (r + a * l) & ones(n))),
    "submul_1": ("l1a", lambda r, a, n, l: ((-((r - a * l) >> (64 * n))), (r - a * l) & ones(n))),
    "add": ("ao", lambda a, n1, b, n2: ((a + b) >> (64 * n1), (a + b) & ones(n1))),
    "sub": ("ao", lambda a, n1, b, n2: ((1 if a < b else 0), (a - b) & ones(n1))),
    "addadd_n": ("n3", lambda a, b, c, n: ((a + b + c) >> (64 * n), (a + b + c) & ones(n))),
    "addsub_n": ("n3s", lambda a, b, c, n: (((a + b - c) >> (64 * n)), (a + b - c) & ones(n))),
    "subadd_n": ("n3", lambda a, b, c, n: (-((a - b - c) >> (64 * n)), (a - b - c) & ones(n))),
    "sumdiff_n": ("sd", lambda a, b, n: (2 * ((a + b) >> (64 * n)) + (1 if a < b else 0), (a + b) & ones(n), (a - b) & ones(n))),
    "nsumdiff_n": ("sd", lambda a, b, n: (None, (-(a + b)) & ones(n), (a - b) & ones(n))),
}

_protos = {
    "n2": (c_uint64, [c_void_p, c_void_p, c_void_p, c_long]),
    "n2v": (None, [c_void_p, c_void_p, c_void_p, c_long]),
    "n1": (c_uint64, [c_void_p, c_void_p, c_long]),
    "n1v": (None, [c_void_p, c_void_p, c_long]),
    "sh": (c_uint64, [c_void_p, c_void_p, c_long, c_uint]),
    "l1": (c_uint64, [c_void_p, c_void_p, c_long, c_uint64]),
    "l1a": (c_uint64, [c_void_p, c_void_p, c_long, c_uint64]),
    "ao": (c_uint64, [c_void_p, c_void_p, c_long, c_void_p, c_long]),
    "n3": (c_uint64, [c_void_p, c_void_p, c_void_p, c_void_p, c_long]),
    "n3s": (c_int, [c_void_p, c_void_p, c_void_p, c_void_p, c_long]),
    "sd": (c_uint64, [c_void_p, c_void_p, c_void_p, c_void_p, c_long]),
}


def bind(libhandle, name, symbol=None):
    cls = REF[name][0]
    f = getattr(libhandle, symbol or ("__gmpn_" + name))
    f.restype, f.argtypes = _protos[cls]
    return f


def run_n2(A, f, ref, n, a, b, mode):
    """mode: 0 separate, 1 rp==s1, 2 rp==s2, 3 rp==s1==s2 (then b is ignored, b=a), 4 s1==s2 separate rp"""
    o1 = G
    o2 = o1 + n + G
    orr = o2 + n + G
    end = orr + n + G
    if mode == 1:
        orr = o1
    elif mode == 2:
        orr = o2
    elif mode == 3:
        o2 = orr = o1
        b = a
    elif mode == 4:
        o2 = o1
        b = a
    A.reset(end)
    A.put(o1, a, n)
    if o2 != o1:
        A.put(o2, b, n)
    ret = f(A.addr(orr), A.addr(o1), A.addr(o2), n)
    er, ev = ref(a, b, n)
    got = A.get(orr, n)
    if got != ev or (er is not None and ret != er):
        return "result %x ret %r, expected %x ret %r" % (got, ret, ev, er)
    if orr != o1 and A.get(o1, n) != a:
        return "source 1 modified"
    if orr != o2 and A.get(o2, n) != b:
        return "source 2 modified"
    if not A.untouched(end, [(o1, n), (o2, n), (orr, n)]):
        return "wrote outside {rp,n}"
    return None


def run_n1(A, f, ref, n, a, delta):
    """rp = sp + delta limbs (delta==None: separate)"""
    os_ = G + 4 + (max(0, -delta) if delta is not None else 0)      # room below the source for destinations at lower addresses
    if delta is None:
        orr = os_ + n + G
    else:
        orr = os_ + delta
    end = max(os_, orr) + n + G + 4
    assert orr >= G and end <= A.nl
    A.reset(end)
    A.put(os_, a, n)
    ret = f(A.addr(orr), A.addr(os_), n)
    er, ev = ref(a, n)
    got = A.get(orr, n)
    if got != ev or (er is not None and ret != er):
        return "result %x ret %r, expected %x ret %r" % (got, ret, ev, er)
    if delta is None:
        if A.get(os_, n) != a:
            return "source modified"
        if not A.untouched(end, [(os_, n), (orr, n)]):
            return "wrote outside {rp,n}"
    else:
        # source limbs outside the destination must be intact
        lo, hi = min(os_, orr), max(os_, orr) + n
        if delta > 0 and A.get(os_, min(delta, n)) != a & ones(min(delta, n)):
            return "source limbs below rp modified"
        if delta < 0 and -delta <= n and A.get(orr + n, -delta) != (a >> (64 * (n + delta))):
            return "source limbs above rp+n modified"
        if not A.untouched(end, [(lo, hi - lo)]):
            return "wrote outside {rp,n}"
    return None


def run_sh(A, f, ref, n, a, c, delta):
    os_ = G + 4 + (max(0, -delta) if delta is not None else 0)
    orr = os_ + n + G if delta is None else os_ + delta
    end = max(os_, orr) + n + G + 4
    assert orr >= G and end <= A.nl
    A.reset(end)
    A.put(os_, a, n)
    ret = f(A.addr(orr), A.addr(os_), n, c)
    er, ev = ref(a, n, c)
    got = A.get(orr, n)
    if got != ev or ret != er:
        return "result %x ret %x, expected %x ret %x" % (got, ret, ev, er)
    if delta is None:
        if A.get(os_, n) != a:
            return "source modified"
        if not A.untouched(end, [(os_, n), (orr, n)]):
            return "wrote outside {rp,n}"
    else:
        lo, hi = min(os_, orr), max(os_, orr) + n
        if not A.untouched(end, [(lo, hi - lo)]):
            return "wrote outside {rp,n}"
    return None


def run_l1(A, f, ref, n, a, l, inplace, r0=None):
    os_ = G
    orr = os_ if inplace else os_ + n + G
    end = max(os_, orr) + n + G
    A.reset(end)
    A.put(os_, a, n)
    if r0 is not None:
        if inplace:
            r0 = a
        else:
            A.put(orr, r0, n)
        er, ev = ref(r0, a, n, l)
    else:
        er, ev = ref(a, n, l)
    ret = f(A.addr(orr), A.addr(os_), n, l)
    got = A.get(orr, n)
    if got != ev or ret != er:
        return "result %x ret %x, expected %x ret %x" % (got, ret, ev, er)
    if not inplace and A.get(os_, n) != a:
        return "source modified"
    if not A.untouched(end, [(os_, n), (orr, n)]):
        return "wrote outside {rp,n}"
    return None


def run_ao(A, f, ref, n1, a, n2, b, mode):
    """mode 0 separate, 1 rp==s1, 2 rp==s2"""
    o1 = G
    o2 = o1 + n1 + G
    orr = o2 + n2 + G
    end = orr + n1 + G
    if mode == 1:
        orr = o1
    elif mode == 2:
        orr = o2
        end = max(end, o2 + n1 + G)
    A.reset(end)
    if mode == 2:
        # rp==s2 needs n1 limbs of room at s2
        pass
    A.put(o1, a, n1)
    A.put(o2, b, n2)
    ret = f(A.addr(orr), A.addr(o1), n1, A.addr(o2), n2)
    er, ev = ref(a, n1, b, n2)
    got = A.get(orr, n1)
    if got != ev or ret != er:
        return "result %x ret %x, expected %x ret %x" % (got, ret, ev, er)
    if orr != o1 and A.get(o1, n1) != a:
        return "source 1 modified"
    if orr != o2 and A.get(o2, n2) != b:
        return "source 2 modified"
    if not A.untouched(end, [(o1, n1), (o2, n2), (orr, n1)]):
        return "wrote outside {rp,n}"
    return None


def run_n3(A, f, ref, n, a, b, c, mode):
    """mode 0 separate; 1 rp==a; 2 rp==b; 3 rp==c"""
    oa = G
    ob = oa + n + G
    oc = ob + n + G
    orr = oc + n + G
    end = orr + n + G
    if mode:
        orr = (oa, ob, oc)[mode - 1]
    A.reset(end)
    A.put(oa, a, n)
    A.put(ob, b, n)
    A.put(oc, c, n)
    ret = f(A.addr(orr), A.addr(oa), A.addr(ob), A.addr(oc), n)
    er, ev = ref(a, b, c, n)
    got = A.get(orr, n)
    if got != ev or ret != er:
        return "result %x ret %r, expected %x ret %r" % (got, ret, ev, er)
    for o, v, nm in ((oa, a, "a"), (ob, b, "b"), (oc, c, "c")):
        if o != orr and A.get(o, n) != v:
            return "source %s modified" % nm
    if not A.untouched(end, [(oa, n), (ob, n), (oc, n), (orr, n)]):
        return "wrote outside {rp,n}"
    return None


def run_sd(A, f, ref, n, a, b, mode):
    """mode 0: all separate; 1: rp1==s1, rp2==s2; 2: rp1==s2, rp2==s1"""
    o1 = G
    o2 = o1 + n + G
    r1 = o2 + n + G
    r2 = r1 + n + G
    end = r2 + n + G
    if mode == 1:
        r1, r2 = o1, o2
    elif mode == 2:
        r1, r2 = o2, o1
    A.reset(end)
    A.put(o1, a, n)
    A.put(o2, b, n)
    ret = f(A.addr(r1), A.addr(r2), A.addr(o1), A.addr(o2), n)
    er, e1, e2 = ref(a, b, n)
    g1, g2 = A.get(r1, n), A.get(r2, n)
    if g1 != e1 or g2 != e2 or (er is not None and ret != er):
        return "results %x %x ret %r, expected %x %x ret %r" % (g1, g2, ret, e1, e2, er)
    if mode == 0 and (A.get(o1, n) != a or A.get(o2, n) != b):
        return "source modified"
    if not A.untouched(end, [(o1, n), (o2, n), (r1, n), (r2, n)]):
        return "wrote outside destination"
    return None
