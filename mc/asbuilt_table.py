"""python3 -m mc.asbuilt_table  -- markdown table of what the last run of every check covered, from /verif/evidence/*.json
(pasted into DESIGN.md section 8.1; the per-space documentation strings are in the evidence files themselves)"""
import json, os, glob

ROOT = os.path.dirname(os.path.dirname(os.path.abspath(__file__)))


def main():
    print("| id | tier | passes (build variants) | spaces: executions | evaluations | wall |")
    print("|---|---|---|---|---|---|")
    for f in sorted(glob.glob(os.path.join(ROOT, "evidence", "C*.json"))):
        d = json.load(open(f))
        cov = d["coverage"]
        passes = cov.get("passes", [])
        vs = ", ".join("`%s`" % p["variant"] for p in passes)
        sp = {}
        for p in passes:
            for k, v in (p.get("per_space") or {}).items():
                n = v["executions"] if isinstance(v, dict) else v[0]
                k2 = k.split("/")[-1] if k.count("/") >= 2 else k
                sp[k2] = sp.get(k2, 0) + n
        items = sorted(sp.items(), key=lambda kv: -kv[1])
        txt = "; ".join("%s %s" % (k, _h(n)) for k, n in items[:14]) + (" ; +%d more" % (len(items) - 14) if len(items) > 14 else "")
        print("| %s | %s | %s | %s | %s | %.0f s |" % (d["property_id"], d["tier"], vs, txt, _h(cov.get("evaluations", 0)), d.get("wall_s", 0)))


def _h(n):
    if n >= 10 ** 6:
        return "%.1f M" % (n / 1e6)
    if n >= 10 ** 3:
        return "%.1f k" % (n / 1e3)
    return str(n)


if __name__ == "__main__":
    main()
