"""Evidence, replay files, known-findings handling."""
import os, json, time

ROOT = os.path.dirname(os.path.dirname(os.path.abspath(__file__)))


def load_known():
    p = os.path.join(ROOT, "known_findings.json")
    if not os.path.exists(p):
        return []
    return json.load(open(p))["findings"]


def match_known(pid, fail, known):
    for k in known:
        if k["property"] != pid or k.get("status") != "known":
            continue
        m = k.get("match", {})
        ok = True
        for key, val in m.items():
            fv = str(fail.get(key, ""))
            if isinstance(val, list):
                if not any(v in fv for v in val):
                    ok = False
            elif val not in fv:
                ok = False
        if ok:
            return k
    return None


def write_replay(pid, tier, variant, fail, idx):
    d = os.environ.get("VERIF_REPLAY_DIR") or os.path.join(ROOT, "replays")
    os.makedirs(d, exist_ok=True)
    p = os.path.join(d, "%s-%d.json" % (pid, idx))
    r = dict(fail)
    r.update({"property": pid, "tier": tier, "variant": variant})
    json.dump(r, open(p, "w"), indent=1)
    return p


def finish(mod, pid, tier, seed, results, wall, extra_cov=None, level=None):
    known = load_known()
    viol, kn = [], []
    for res in results:
        for f in res["fails"]:
            f = dict(f)
            f["variant"] = res["variant"]
            k = match_known(pid, f, known)
            if k:
                kn.append((k, f))
            else:
                viol.append(f)
    # old replay files of this property are removed first
    rd = os.environ.get("VERIF_REPLAY_DIR") or os.path.join(ROOT, "replays")
    if os.path.isdir(rd):
        for fn in os.listdir(rd):
            if fn.startswith(pid + "-"):
                os.unlink(os.path.join(rd, fn))
    lines = []
    seen_known = set()
    for k, f in kn:
        if k["id"] not in seen_known:
            seen_known.add(k["id"])
            lines.append("KNOWN-FINDING: property=%s %s" % (pid, k["what"]))
    # show one violation of every distinct (space, kind) first
    seen_k, first, rest = set(), [], []
    for f in viol:
        k = (f.get("space"), f.get("kind"))
        (rest if k in seen_k else first).append(f)
        seen_k.add(k)
    viol = first + rest
    for i, f in enumerate(viol[:10]):
        p = write_replay(pid, tier, f["variant"], f, i)
        print("  violation: [%s/%s] %s: %s\n     case=%s" % (f["variant"], f["space"], f["kind"], f["msg"][:300], f["case"][:300] if f.get("case") else None))
        lines.append("VIOLATION property=%s replay=%s" % (pid, p))
    n = sum(r["n"] for r in results)
    distinct = sum(r["distinct"] for r in results)
    exhaustive = all(r["exhaustive"] for r in results)
    samples = []
    for r in results:
        samples += r["samples"][:6]
    level = level or mod.LEVEL
    cov = {
        "evaluations": n,
        "distinct_nontrivial": distinct,
        "rule": mod.RULE,
        "samples": samples[:12],
        "exhaustive": exhaustive,
        "passes": [{"variant": r["variant"], "executions": r["n"], "distinct_outcomes": r["distinct"], "blocks_done": r["blocks"],
                    "blocks_total": r["total_blocks"], "exhaustive": r["exhaustive"], "wall_s": r["wall_s"],
                    "per_space": {k: {"executions": v[0], "blocks": v[1]} for k, v in r["per_space"].items()},
                    "counters": r.get("extra", {}), "errors": r.get("errors", []), "post": r.get("post")} for r in results],
        "spaces": results[0]["spaces"] if results else [],
        "known_findings_seen": sorted(seen_known),
    }
    if level == "model_checking":
        cov["states"] = max(1, sum(r.get("extra", {}).get("states", 0) for r in results) or distinct)
        cov["transitions"] = max(1, n)
        cov["traces_validated_against_impl"] = n
    if extra_cov:
        cov.update(extra_cov)
    ev = {"property_id": pid, "tier": tier, "seed": seed, "level": level, "coverage": cov,
          "assumptions": getattr(mod, "ASSUMPTIONS", []), "wall_s": round(wall, 2), "violations": len(viol)}
    evd = os.environ.get("VERIF_EVIDENCE_DIR") or os.path.join(ROOT, "evidence")      # (redirected only when trying seeded changes)
    os.makedirs(evd, exist_ok=True)
    json.dump(ev, open(os.path.join(evd, pid + ".json"), "w"), indent=1)
    print("%s %s: %d executions, %d distinct outcomes, %d blocks, exhaustive=%s, %d violation(s), %d known, %.1fs" % (
        pid, tier, n, distinct, sum(r["blocks"] for r in results), exhaustive, len(viol), len(kn), wall))
    for r in results:
        for e in r.get("errors", []):
            print("  note[%s]: %s" % (r["variant"], e[:400]))
    for l in lines:
        print(l)
    return 1 if viol else 0
