"""Run-time threshold configurations (DESIGN 3.4).

The `rt` variant is the whole library compiled with the project's own -DTUNE_PROGRAM_BUILD=1: every
*_THRESHOLD becomes an `extern mp_size_t` variable.  This module generates the definitions (initialised from
the tree's own gmp-mparam.h / gmp-impl.h defaults), loads them RTLD_GLOBAL in front of the library and lets
the enumerators set whole vectors."""
import ctypes, os, re, subprocess, hashlib, glob
from ctypes import c_long
from . import build, lib

THR = None
NAMES = []
PIN = {}
LIMITS = {"mul_karatsuba_threshold": 700, "mul_toom3_threshold": 700, "mul_toom4_threshold": 1000, "mul_toom8h_threshold": 2000,
          "mullow_basecase_threshold": 200, "sqr_toom3_threshold": 400, "sqr_toom4_threshold": 1000, "sqr_toom8_threshold": 2000,
          "get_str_dc_threshold": 150, "get_str_precompute_threshold": 150, "fac_dsc_threshold": 2048}
MAXL = (1 << 63) - 1


def load():
    """build + load the rt variant with its threshold variables; returns the pin vector"""
    global THR, NAMES, PIN
    meta = build.get("rt")
    out = subprocess.check_output(["nm", "-D", meta["so"]]).decode()
    NAMES = sorted(l.split()[1] for l in out.splitlines() if l.strip().startswith("U ") and l.strip().endswith("_threshold"))
    src = ['#include "mpir.h"', '#include "gmp-impl.h"']
    for n in NAMES:
        src.append("#ifndef %s\n#error missing %s\n#endif\nlong %s = %s;" % (n.upper(), n.upper(), n, n.upper()))
    src = "\n".join(src) + "\n"
    h = hashlib.sha256(src.encode()).hexdigest()[:10]
    so = os.path.join(meta["dir"], "thr-%s.so" % h)
    if not os.path.exists(so):
        c = os.path.join(meta["dir"], "thr-%s.%d.c" % (h, os.getpid()))
        open(c, "w").write(src)
        tmp = so + ".%d.tmp" % os.getpid()
        inc = ["-I", meta["include"]]
        if not os.path.exists(os.path.join(meta["include"], "gmp-impl.h")):
            inc += ["-I", build.REPO]              # cache entry written by an older build recipe
        subprocess.check_call(["gcc", "-O0", "-fPIC", "-shared"] + inc + ["-o", tmp, c])
        os.rename(tmp, so)
        os.unlink(c)
    THR = ctypes.CDLL(so, mode=ctypes.RTLD_GLOBAL)
    lib.load("rt")
    PIN = get()
    return dict(PIN)


def get():
    return {n: c_long.in_dll(THR, n).value for n in NAMES}


def set_vector(v):
    for n in NAMES:
        c_long.in_dll(THR, n).value = v[n]


def set_one(name, val):
    c_long.in_dll(THR, name).value = val


def floor_vector():
    """every threshold at the minimum tune/tuneup.c allows, respecting its ordering constraints"""
    v = dict(PIN)
    f = {
        "mul_karatsuba_threshold": 4, "mul_toom3_threshold": 17, "mul_toom4_threshold": 32, "mul_toom8h_threshold": 86,
        "mul_fft_full_threshold": 96,
        "sqr_karatsuba_threshold": 4, "sqr_toom3_threshold": 17, "sqr_toom4_threshold": 32, "sqr_toom8_threshold": 58,
        "sqr_fft_full_threshold": 96,
        "mullow_basecase_threshold": 0, "mullow_dc_threshold": 3, "mullow_mul_threshold": 8,
        "mulhigh_basecase_threshold": 3, "mulhigh_dc_threshold": 4, "mulhigh_mul_threshold": 8,
        "mulmid_toom42_threshold": 4, "mulmod_2expm1_threshold": 1,
        "dc_div_qr_threshold": 10, "inv_div_qr_threshold": 10, "dc_divappr_q_threshold": 10, "inv_divappr_q_n_threshold": 10,
        "dc_div_q_threshold": 10, "inv_div_q_threshold": 10, "inv_divappr_q_threshold": 10,
        "dc_bdiv_qr_threshold": 10, "dc_bdiv_q_threshold": 10, "binv_newton_threshold": 8,
        "rootrem_threshold": 1, "divrem_hensel_qr_1_threshold": 2, "rsh_divrem_hensel_qr_1_threshold": 3,
        "divrem_euclid_hensel_threshold": 8, "mod_1_1_threshold": 3, "mod_1_2_threshold": 4, "mod_1_3_threshold": 5,
        "redc_1_to_redc_n_threshold": 16, "matrix22_strassen_threshold": 2, "hgcd_threshold": 30, "hgcd_appr_threshold": 50,
        "hgcd_reduce_threshold": 30, "gcd_dc_threshold": 30, "gcdext_dc_threshold": 30,
        "get_str_dc_threshold": 4, "get_str_precompute_threshold": 4, "set_str_dc_threshold": 100,
        "set_str_precompute_threshold": 100, "fac_dsc_threshold": 70, "fac_odd_threshold": 0,
    }
    for k, val in f.items():
        if k in v:
            v[k] = val
    return v


def parse_mparam(path):
    d = {}
    for line in open(path, errors="replace"):
        m = re.match(r"#define\s+([A-Z0-9_]+_THRESHOLD)\s+(\S+)", line)
        if m:
            val = m.group(2)
            if val == "MP_SIZE_T_MAX":
                d[m.group(1).lower()] = MAXL
            else:
                try:
                    d[m.group(1).lower()] = int(val)
                except ValueError:
                    pass
    return d


def ship_vectors(repo=None):
    """name -> vector for every gmp-mparam.h shipped under mpn/x86_64 (missing entries keep the pin value)"""
    repo = repo or build.REPO
    out = {}
    for p in sorted(glob.glob(os.path.join(repo, "mpn/x86_64/**/gmp-mparam.h"), recursive=True)):
        d = parse_mparam(p)
        v = dict(PIN)
        ok = True
        for k, val in d.items():
            if k in v:
                if k in LIMITS and val >= LIMITS[k]:
                    ok = False      # above the array bound the tune build itself uses; not representable in rt
                v[k] = val
        name = os.path.relpath(os.path.dirname(p), os.path.join(repo, "mpn/x86_64")) or "x86_64"
        if ok:
            out[name] = v
    return out


def dev1_vectors(names=None):
    """pin with exactly one threshold replaced by its floor / smallest shipped / largest shipped value"""
    fl = floor_vector()
    ships = ship_vectors()
    out = {}
    for n in (names or NAMES):
        cands = {fl[n]}
        vals = [s[n] for s in ships.values()]
        cands.add(min(vals))
        cands.add(max(vals))
        for c in sorted(cands):
            if c != PIN[n] and not (n in LIMITS and c >= LIMITS[n]):
                v = dict(PIN)
                v[n] = c
                out["%s=%d" % (n, c)] = v
    return out
