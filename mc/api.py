"""The public API as an op table: prototypes parsed from the variant's own (preprocessed) mpir.h, parameter roles derived from the
pointer types (mpz_ptr = output, mpz_srcptr = input ...), a hand-kept table of in/out parameters, argument domains and preconditions
from the manual.  Used by C04 (call histories, allocator contract, object format) and C05 (aliasing), where the oracle is
differential and needs no per-function semantics."""
import re, subprocess, os, math
from fractions import Fraction
from ctypes import c_void_p, c_long, c_ulong, c_int, c_double, c_size_t
from . import lib

B = 1 << 64
M = B - 1
H = 1 << 63

TYPEMAP = {
    "mpz_ptr": ("Z", "o"), "mpz_srcptr": ("Z", "i"), "mpq_ptr": ("Q", "o"), "mpq_srcptr": ("Q", "i"),
    "mpf_ptr": ("F", "o"), "mpf_srcptr": ("F", "i"),
    "mpir_ui": ("ui", None), "mpir_si": ("si", None), "mp_bitcnt_t": ("bit", None), "unsigned long": ("ui", None), "unsigned long int": ("ui", None),
    "long": ("si", None), "long int": ("si", None), "signed long": ("si", None), "int": ("int", None), "double": ("dbl", None),
    "mp_size_t": ("size", None), "mp_exp_t": ("exp", None), "size_t": ("szt", None), "uintmax_t": ("ui", None), "intmax_t": ("si", None),
}
RETMAP = {"void": None, "int": c_int, "mpir_ui": c_ulong, "mpir_si": c_long, "mp_bitcnt_t": c_ulong, "unsigned long": c_ulong, "long": c_long,
          "double": c_double, "size_t": c_size_t, "mp_size_t": c_long, "uintmax_t": c_ulong, "intmax_t": c_long, "mp_limb_t": c_ulong}
CT = {"Z": c_void_p, "Q": c_void_p, "F": c_void_p, "ui": c_ulong, "si": c_long, "bit": c_ulong, "int": c_int, "dbl": c_double, "size": c_long,
      "exp": c_long, "szt": c_size_t}

# first pointer parameter is read as well as written
INOUT = {"mpz_addmul", "mpz_addmul_ui", "mpz_submul", "mpz_submul_ui", "mpz_setbit", "mpz_clrbit", "mpz_combit", "mpq_canonicalize",
         "mpq_set_num", "mpq_set_den"}
# not explored through the generic table (lifecycle, obsolete, raw memory, random global state, functions taking other pointers)
EXCLUDE = {"mpz_clear", "mpz_init", "mpz_init2", "mpz_realloc2", "mpz_realloc", "mpz_array_init", "mpz_swap", "mpq_swap", "mpf_swap", "mpq_clear", "mpq_init",
           "mpf_clear", "mpf_init", "mpf_init2", "mpf_set_prec", "mpf_set_prec_raw", "mpf_set_default_prec", "mpf_get_default_prec", "mpf_get_prec",
           "mpz_random", "mpz_random2", "mpf_random2", "mpz_getlimbn", "mpz_size", "mpz_limbs_finish", "mpz_limbs_write", "mpz_limbs_modify", "mpz_limbs_read",
           "mpf_dump", "mpz_dump", "mpf_size", "mpz_div_2exp", "mpz_mod_2exp", "mpf_eq", "mpf_reldiff", "mpz_init_set", "mpz_init_set_ui", "mpz_init_set_si",
           "mpz_init_set_d", "mpf_init_set", "mpf_init_set_ui", "mpf_init_set_si", "mpf_init_set_d", "mpz_inits", "mpz_clears", "mpq_inits", "mpq_clears",
           "mpf_inits", "mpf_clears", "mpz_millerrabin", "mpz_probab_prime_p", "mpz_nextprime", "mpz_init_set_ux", "mpz_init_set_sx"}


def _protos(meta):
    out = subprocess.check_output(["gcc", "-E", "-P", "-I", meta["include"], os.path.join(meta["include"], "mpir.h")], stderr=subprocess.DEVNULL).decode()
    txt = re.sub(r"\s+", " ", out)
    res = {}
    for stmt in txt.split(";"):
        stmt = re.sub(r"__attribute__\s*\(\(.*?\)\)", "", stmt).strip()
        m = re.match(r"^(?:.*\}\s*)?(?:extern\s+)?([A-Za-z_][A-Za-z0-9_ \*]*?)\s*\b(__gmp[zqf]_[a-z0-9_]+)\s*\(([^{}]*)\)\s*$", stmt)
        if not m:
            continue
        ret, sym, params = m.group(1).strip(), m.group(2), m.group(3).strip()
        if "typedef" in ret or "return" in ret:
            continue
        name = sym[3:]            # __gmpz_add -> mpz_add
        res[name] = (ret, sym, params)
    return res


class Fn:
    def __init__(self, name, sym, ret, params):
        self.name, self.sym, self.ret, self.params = name, sym, ret, params   # params: list of (kind, role) role in o,w,i,None
        self._f = None

    def f(self):
        if self._f is None:
            f = getattr(lib.L, self.sym)
            f.restype = RETMAP[self.ret]
            f.argtypes = [CT[k] for k, r in self.params]
            self._f = f
        return self._f

    def objs(self):
        return [i for i, (k, r) in enumerate(self.params) if k in "ZQF"]

    def __repr__(self):
        return "%s(%s)" % (self.name, ",".join(k + (r or "") for k, r in self.params))


def table(meta=None):
    meta = meta or lib.META
    fns = {}
    for name, (ret, sym, params) in _protos(meta).items():
        if name in EXCLUDE or ret not in RETMAP:
            continue
        plist = []
        ok = True
        if params in ("void", ""):
            continue
        for p in params.split(","):
            p = p.strip()
            p = re.sub(r"\bconst\b|\b__gmp_const\b", "", p).strip()
            # drop a parameter name if present
            t = p
            if t not in TYPEMAP:
                t2 = re.sub(r"\s+[A-Za-z_][A-Za-z0-9_]*$", "", t).strip()
                t = t2
            if t not in TYPEMAP:
                ok = False
                break
            plist.append(TYPEMAP[t])
        if not ok or not plist:
            continue
        # roles
        pl = []
        first_out = True
        for k, r in plist:
            if r == "o" and name in INOUT and first_out:
                pl.append((k, "w"))
            else:
                pl.append((k, r))
            if r == "o":
                first_out = False
        if not any(k in "ZQF" for k, r in pl):
            continue
        fns[name] = Fn(name, sym, ret, pl)
    return fns


# ------------------------------------------------------------------ argument domains
ZVALS = [0, 1, -1, 2, M, -M, B, -B, B + 1, B * B - 1, -(B * B - 1), H << 64, -(H << 64) - 1, (1 << 127) + 1, 3 * M, 6, -12, (B ** 3) - 1, 1 << 130,
         B ** 40 - 1, -(B ** 33 + B ** 7 + 1), (H << (64 * 30)) | 5, int('9e3779b97f4a7c15' * 36, 16)]
ZSMALL = [0, 1, -1, 2, M, -B, B * B - 1, (1 << 127) + 1, 6, -(B ** 33 + B ** 7 + 1)]
QVALS = [Fraction(0), Fraction(1), Fraction(-1), Fraction(1, 2), Fraction(-3, 4), Fraction(M, 3), Fraction(-B, B - 1), Fraction(B * B - 1, B + 2), Fraction(7, B * B + 1),
         Fraction(-(1 << 190), 7), Fraction(1 << 64, 3), Fraction(5, 1 << 128)]
FVALS = [Fraction(0), Fraction(1), Fraction(-1), Fraction(3, 2), Fraction(-5, 8), Fraction(M), Fraction(B), Fraction(-(B * B - 1)), Fraction(1, 1 << 64), Fraction((1 << 128) + 1, 1 << 64),
         Fraction(-(1 << 100)), Fraction(3, 1 << 70)]
# wider alphabets for the thorough tiers (used when a function has at most two value inputs)
ZBIG = ZVALS + [3, -3, 7, 12, 255, -256, 1 << 32, -(1 << 32) - 1, H, -H, H + 1, H - 1, M - 1, B + 2, -(B + 1), B * B, -(B * B) + 1, B * B + 1, (1 << 127) - 1, -(1 << 127),
                (1 << 128) - 1, 5 * B + 3, -(7 * B * B + 1), (1 << 191) - 1, 1 << 192, -(1 << 192) - 1, (B ** 4 - 1) // 3, B ** 5 - 1, -(B ** 6) + 7, (1 << 640) + (1 << 64),
                (B ** 17 - 1), -(B ** 20 + B ** 10), int('5' * 330, 16), -int('a' * 165 + '5' * 165, 16), (B ** 24) >> 1, 1000003, -(10 ** 40), 10 ** 100 + 7]
QBIG = QVALS + [Fraction(3), Fraction(-7, 2), Fraction(1, B), Fraction(-1, B * B), Fraction(B * B + 1, B - 1), Fraction(-(B ** 3) + 1, 1 << 63), Fraction(10 ** 30, 10 ** 20 + 1), Fraction(1 << 200, (1 << 100) + 1),
                Fraction(-5, 1 << 64), Fraction(M, M - 1), Fraction(1, 3 * B), Fraction(-(1 << 130), 12)]
FBIG = FVALS + [Fraction(7), Fraction(-1, 2), Fraction(1, 1 << 10), Fraction(B * B + 1), Fraction(-(B ** 3) + 1, 1 << 64), Fraction(1 << 200), Fraction(-3, 1 << 130), Fraction((1 << 127) - 1, 1 << 127),
                Fraction(5 * B + 1, 1 << 64), Fraction(-M, 1 << 64), Fraction(1, 1 << 190), Fraction(3 << 126)]
UI = [0, 1, 2, 3, 64, M]
SI = [0, 1, -1, 2, (1 << 63) - 1, -(1 << 63)]
BIT = [0, 1, 63, 64, 65, 128, 200]
DBL = [0.0, 1.0, -1.5, 0.75, 1e10, -3.0e20, 2.0 ** 70, 0.001]

SMALLN = [0, 1, 2, 3, 7, 20, 64, 100]


def _div_ok(d):
    return d != 0


# name -> dict(param_index -> value list)  overrides of the default scalar domains
SCALARS = {
    "mpz_fac_ui": {1: SMALLN + [200]}, "mpz_2fac_ui": {1: SMALLN + [201]}, "mpz_primorial_ui": {1: SMALLN + [300]}, "mpz_mfac_uiui": {1: SMALLN + [150], 2: [1, 2, 3, 7]},
    "mpz_fib_ui": {1: SMALLN + [300]}, "mpz_fib2_ui": {2: SMALLN + [300]}, "mpz_lucnum_ui": {1: SMALLN + [300]}, "mpz_lucnum2_ui": {2: SMALLN + [300]},
    "mpz_bin_ui": {2: [0, 1, 2, 5, 40]}, "mpz_bin_uiui": {1: [0, 1, 5, 67, 68, 100, 1000, M], 2: [0, 1, 2, 5, 40]},
    "mpz_pow_ui": {2: [0, 1, 2, 3, 17]}, "mpz_ui_pow_ui": {1: [0, 1, 2, 3, M], 2: [0, 1, 2, 3, 17, 70]}, "mpf_pow_ui": {2: [0, 1, 2, 3, 17]},
    "mpz_powm_ui": {2: [0, 1, 2, 3, 65, M]},
    "mpz_root": {2: [1, 2, 3, 5, 64, 1000]}, "mpz_nthroot": {2: [1, 2, 3, 5, 64, 1000]}, "mpz_rootrem": {3: [1, 2, 3, 5, 64, 1000]},
    "mpz_mul_2exp": {2: BIT}, "mpz_ui_sub": {1: UI},
    "mpz_get_str": None, "mpz_probable_prime_p": None, "mpz_likely_prime_p": None,
    "mpz_sizeinbase": {1: [2, 3, 10, 16, 36, 62]},
    "mpz_set_d": {1: DBL}, "mpq_set_d": {1: DBL}, "mpf_set_d": {1: DBL}, "mpz_cmp_d": {1: DBL + [float("inf")]}, "mpz_cmpabs_d": {1: DBL}, "mpf_cmp_d": {1: DBL},
    "mpq_set_si": {2: [1, 2, 3, M]}, "mpq_set_ui": {2: [1, 2, 3, M]}, "mpq_cmp_ui": {2: [1, 2, M]}, "mpq_cmp_si": {2: [1, 2, M]},
    "mpf_sqrt_ui": {1: UI + [4, 1 << 62]},
    "mpf_mul_2exp": {2: BIT}, "mpf_div_2exp": {2: BIT}, "mpq_mul_2exp": {2: BIT}, "mpq_div_2exp": {2: BIT},
    "mpz_tstbit": {1: BIT + [1 << 20]}, "mpz_scan0": {1: BIT}, "mpz_scan1": {1: BIT},
    "mpz_trial_division": {1: [0, 3], 2: [10, 1000]},
}


def precondition(fn, args):
    """args: python values in parameter order (None for pure outputs). True when the manual defines the call."""
    n = fn.name
    vals = [a for a in args]
    zin = [a for (k, r), a in zip(fn.params, args) if k in "ZQF" and r in ("i", "w") and a is not None]
    sc = [a for (k, r), a in zip(fn.params, args) if k not in "ZQF"]
    if re.match(r"mpz_[tfc]div_(q|r|qr)$", n) or n in ("mpz_mod", "mpz_divexact", "mpz_mmod", "mpz_mdiv", "mpz_mdivmod"):
        if zin[-1] == 0:
            return False
        if n == "mpz_divexact" and zin[0] % zin[-1]:
            return False
    if re.match(r"mpz_[tfc]div_(q|r|qr)?_?ui$", n) or n in ("mpz_mod_ui", "mpz_divexact_ui", "mpz_fdiv_ui", "mpz_cdiv_ui", "mpz_tdiv_ui", "mpz_mmod_ui", "mpz_mdiv_ui", "mpz_mdivmod_ui"):
        if sc[-1] == 0:
            return False
        if n == "mpz_divexact_ui" and zin[0] % sc[-1]:
            return False
    if n == "mpz_divexact_gcd":
        return zin[1] > 0 and zin[0] % zin[1] == 0
    if n in ("mpz_sqrt", "mpz_sqrtrem", "mpf_sqrt") and zin[0] < 0:
        return False
    if n in ("mpz_root", "mpz_nthroot", "mpz_rootrem"):
        if sc[-1] == 0 or (zin[0] < 0 and sc[-1] % 2 == 0):
            return False
    if n == "mpz_powm":
        b, e, m = zin
        if m == 0 or abs(e) > (1 << 70):
            return False
        if e < 0 and (abs(m) <= 1 or math.gcd(b, m) != 1):
            return False
    if n == "mpz_powm_ui" and zin[-1] == 0:
        return False
    if n == "mpz_invert" and abs(zin[1]) <= 1:
        return False
    if n == "mpz_remove" and zin[1] < 2:
        return False
    if n in ("mpz_jacobi",) and zin[1] % 2 == 0:
        return False      # mpz_kronecker/legendre are macros onto it; only odd b is defined for jacobi
    if n == "mpz_gcdext":
        pass
    if n in ("mpq_div",) and zin[1] == 0:
        return False
    if n == "mpq_inv" and zin[0] == 0:
        return False
    if n in ("mpf_div",) and zin[1] == 0:
        return False
    if n == "mpf_ui_div" and zin[0] == 0:
        return False
    if n == "mpf_div_ui" and sc[-1] == 0:
        return False
    if n == "mpz_bin_ui" and abs(zin[0]) > (1 << 70):
        return False
    if n in ("mpz_lcm",) and abs(zin[0]).bit_length() + abs(zin[1]).bit_length() > 100000:
        return False
    if n == "mpq_set_den" and zin[-1] == 0:
        return False
    if n == "mpz_pow_ui" and abs(zin[0]).bit_length() * sc[-1] > 50000:
        return False
    if n == "mpf_pow_ui" and (abs(zin[0].numerator).bit_length() + zin[0].denominator.bit_length()) * sc[-1] > 50000:
        return False
    if n in ("mpz_next_prime_candidate",):
        return False
    if n == "mpz_si_kronecker" or n == "mpz_ui_kronecker" or n == "mpz_kronecker_si" or n == "mpz_kronecker_ui":
        return True
    if n == "mpz_congruent_p" or n == "mpz_divisible_p":
        return True
    if n in ("mpz_set_d", "mpq_set_d", "mpf_set_d"):
        return not (math.isinf(sc[0]) or math.isnan(sc[0]))
    if n in ("mpf_get_si", "mpf_get_ui"):
        return True
    return True


def default_vals(kind, name, idx, small=False):
    """small: True = reduced alphabet, False = standard, "big" = the thorough tier's wide alphabet"""
    ov = SCALARS.get(name)
    if ov and idx in ov:
        return ov[idx]
    if small == "big":
        if kind == "Z":
            return ZBIG
        if kind == "Q":
            return QBIG
        if kind == "F":
            return FBIG
        small = False
    if kind == "Z":
        return ZSMALL if small else ZVALS
    if kind == "Q":
        return QVALS[:8] if small else QVALS
    if kind == "F":
        return FVALS[:8] if small else FVALS
    return {"ui": UI, "si": SI, "bit": BIT, "int": [0, 1, 2, 5], "dbl": DBL, "size": [0, 1, 2], "exp": [0, 1, -1, 5], "szt": [0, 1, 5, 20]}[kind]
