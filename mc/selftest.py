"""Self-test of the reference model against independent identities (run by setup_cmd):
an oracle bug must show up here, not as an alarm on MPIR."""
import math
from . import optable as ot


def main():
    for a in range(-40, 41):
        for b in range(-40, 41):
            g, s, t = ot.gcdext_ref(a, b)
            assert a * s + b * t == g and g == math.gcd(a, b), (a, b)
            if g and abs(a) != abs(b):
                if not (b == 0 or abs(b) == 2 * g):
                    assert 2 * g * abs(s) < abs(b), (a, b, s)
                else:
                    assert s == ot.sgn(a)
                if not (a == 0 or abs(a) == 2 * g):
                    assert 2 * g * abs(t) < abs(a), (a, b, t)
                else:
                    assert t == ot.sgn(b), (a, b, t)
            assert (s == 0) == (g == abs(b))
            if b:
                for f, nm in ((ot.tdiv, "t"), (ot.fdiv, "f"), (ot.cdiv, "c")):
                    q, r = f(a, b)
                    assert q * b + r == a and abs(r) < abs(b)
                assert ot.tdiv(a, b)[1] == 0 or ot.sgn(ot.tdiv(a, b)[1]) == ot.sgn(a)
                assert ot.fdiv(a, b)[1] == 0 or ot.sgn(ot.fdiv(a, b)[1]) == ot.sgn(b)
                assert ot.cdiv(a, b)[1] == 0 or ot.sgn(ot.cdiv(a, b)[1]) == -ot.sgn(b)
    for a in range(-30, 31):
        for b in range(-30, 31):
            for c in range(-5, 6):
                if b == -1 and a * c == 0:
                    continue
                assert ot.kronecker_ref(a * c, b) == ot.kronecker_ref(a, b) * ot.kronecker_ref(c, b), (a, b, c)
                if not (a == -1 and b * c == 0):
                    assert ot.kronecker_ref(a, b * c) == ot.kronecker_ref(a, b) * ot.kronecker_ref(a, c), (a, b, c)
    for p in (3, 5, 7, 11, 13, 101):
        for a in range(-20, 20):
            e = pow(a % p, (p - 1) // 2, p)
            e = -1 if e == p - 1 else e
            assert ot.kronecker_ref(a, p) == e
    for u in range(0, 3000):
        for n in range(1, 8):
            r = ot.iroot(u, n)
            assert r ** n <= u < (r + 1) ** n
    for u in (2 ** 200, 3 ** 97 - 1, 3 ** 97, 3 ** 97 + 1, 10 ** 50):
        for n in (2, 3, 5, 97, 200, 201, 1000):
            r = ot.iroot(u, n)
            assert r ** n <= u < (r + 1) ** n
    assert ot.is_perfect_power(-8) and not ot.is_perfect_power(-4) and ot.is_perfect_power(-1) and not ot.is_perfect_power(2)
    print("oracle self-test ok")


if __name__ == "__main__":
    main()
