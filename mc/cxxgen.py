"""Generator of C++ programs over mpz_class / mpq_class / mpf_class expressions (C20).

Every statement is emitted twice inside the generated program: as the C++ expression, and as the mechanical post-order sequence of
C calls into own temporaries (the function the manual documents for that operator); the program prints one line per (round,
statement) with both results.  For z and q the Python value of the tree is a third, independent witness computed by the harness."""
import itertools, math
from fractions import Fraction

LMAX, LMIN = (1 << 63) - 1, -(1 << 63)
UMAX = (1 << 64) - 1


class Leaf:
    def __init__(self, kind, text, value, ctype=None, const=True):
        self.kind = kind          # 'var' | 'si' | 'ui' | 'dbl'
        self.text, self.value, self.ctype, self.const = text, value, ctype, const

    def vars(self):
        return {self.text} if self.kind == "var" else set()

    def depth(self):
        return 0


class Node:
    def __init__(self, op, args):
        self.op, self.args = op, args

    def vars(self):
        s = set()
        for a in self.args:
            s |= a.vars()
        return s

    def depth(self):
        return 1 + max(a.depth() for a in self.args)


def is_class(e):
    return isinstance(e, Node) or e.kind == "var"


# ------------------------------------------------------------------ mpz_class
ZBIN = ["+", "-", "*", "/", "%", "&", "|", "^"]
ZSHIFT = ["<<", ">>"]
ZCMP = ["==", "!=", "<", "<=", ">", ">="]
ZUN = ["-", "~", "+"]
ZFUN1 = ["abs", "sqrt"]
ZFUN2 = ["gcd", "lcm"]


def tdiv(n, d):
    q = abs(n) // abs(d)
    if (n < 0) != (d < 0):
        q = -q
    return q, n - q * d


def zval(e, env):
    """Python value of a tree (int, or bool/int for comparisons); raises ZeroDivisionError / ValueError outside the domain"""
    if isinstance(e, Leaf):
        if e.kind == "var":
            return env[e.text]
        if e.kind == "dbl":
            return e.value           # float; converted where used
        return e.value
    op = e.op
    a = [zval(x, env) for x in e.args]
    def z(v):
        return int(v) if isinstance(v, float) else v      # mpz_set_d truncates toward zero
    if op in ZCMP:
        l, r = a
        # comparisons with a double are exact (mpz_cmp_d)
        lf = Fraction(l) if isinstance(l, float) else l
        rf = Fraction(r) if isinstance(r, float) else r
        return int({"==": lf == rf, "!=": lf != rf, "<": lf < rf, "<=": lf <= rf, ">": lf > rf, ">=": lf >= rf}[op])
    if op == "cmp":
        lf = Fraction(a[0]) if isinstance(a[0], float) else a[0]
        rf = Fraction(a[1]) if isinstance(a[1], float) else a[1]
        return (lf > rf) - (lf < rf)
    if op == "sgn":
        return (a[0] > 0) - (a[0] < 0)
    if len(a) == 1:
        x = z(a[0])
        if op == "neg":
            return -x
        if op == "com":
            return ~x
        if op == "pos":
            return x
        if op == "abs":
            return abs(x)
        if op == "sqrt":
            if x < 0:
                raise ValueError
            return math.isqrt(x)
    l, r = z(a[0]), z(a[1])
    if op == "+":
        return l + r
    if op == "-":
        return l - r
    if op == "*":
        return l * r
    if op == "/":
        return tdiv(l, r)[0]
    if op == "%":
        return tdiv(l, r)[1]
    if op == "&":
        return l & r
    if op == "|":
        return l | r
    if op == "^":
        return l ^ r
    if op == "<<":
        return l << r
    if op == ">>":
        return l >> r
    if op == "gcd":
        return math.gcd(l, r)
    if op == "lcm":
        return 0 if l == 0 or r == 0 else abs(l * r) // math.gcd(l, r)
    raise KeyError(op)


UNTXT = {"neg": "-", "com": "~", "pos": "+"}


def cxx(e):
    if isinstance(e, Leaf):
        return e.text
    if e.op in UNTXT:
        return "(%s(%s))" % (UNTXT[e.op], cxx(e.args[0]))
    if e.op == "cmp":
        c = "cmp(%s)" % ", ".join(cxx(a) for a in e.args)
        return "((%s > 0) - (%s < 0))" % (c, c)
    if e.op in ("abs", "sqrt", "sgn", "gcd", "lcm"):
        return "%s(%s)" % (e.op, ", ".join(cxx(a) for a in e.args))
    return "(%s %s %s)" % (cxx(e.args[0]), e.op, cxx(e.args[1]))


class CEmit:
    """post-order C evaluation into temporaries T[i] (mpz_t)"""

    def __init__(self):
        self.lines = []
        self.n = 0

    def tmp(self):
        self.n += 1
        return "T[%d]" % (self.n - 1)

    def leaf(self, e):
        t = self.tmp()
        if e.kind == "var":
            self.lines.append("mpz_set(%s, %s.get_mpz_t());" % (t, e.text))
        elif e.kind == "si":
            self.lines.append("mpz_set_si(%s, (long)(%s));" % (t, e.text))
        elif e.kind == "ui":
            self.lines.append("mpz_set_ui(%s, (unsigned long)(%s));" % (t, e.text))
        else:
            self.lines.append("mpz_set_d(%s, (double)(%s));" % (t, e.text))
        return t

    def ev(self, e):
        """returns the name of the temporary holding the mpz value of e"""
        if isinstance(e, Leaf):
            return self.leaf(e)
        op = e.op
        if op in ("neg", "com", "pos", "abs", "sqrt"):
            x = self.ev(e.args[0])
            t = self.tmp()
            f = {"neg": "mpz_neg", "com": "mpz_com", "pos": "mpz_set", "abs": "mpz_abs", "sqrt": "mpz_sqrt"}[op]
            self.lines.append("%s(%s, %s);" % (f, t, x))
            return t
        if op in ("<<", ">>"):
            x = self.ev(e.args[0])
            t = self.tmp()
            f = "mpz_mul_2exp" if op == "<<" else "mpz_fdiv_q_2exp"
            self.lines.append("%s(%s, %s, (mp_bitcnt_t)(%s));" % (f, t, x, e.args[1].text))
            return t
        l = self.ev(e.args[0])
        r = self.ev(e.args[1])
        t = self.tmp()
        f = {"+": "mpz_add", "-": "mpz_sub", "*": "mpz_mul", "/": "mpz_tdiv_q", "%": "mpz_tdiv_r", "&": "mpz_and", "|": "mpz_ior", "^": "mpz_xor",
             "gcd": "mpz_gcd", "lcm": "mpz_lcm"}[op]
        self.lines.append("%s(%s, %s, %s);" % (f, t, l, r))
        return t

    def ev_int(self, e):
        """C expression (int) for comparison-like roots"""
        op = e.op
        if op == "sgn":
            x = self.ev(e.args[0])
            return "mpz_sgn(%s)" % x
        l, r = e.args
        # a double leaf is compared exactly with mpz_cmp_d
        if isinstance(r, Leaf) and r.kind == "dbl":
            x = self.ev(l)
            c = "mpz_cmp_d(%s, (double)(%s))" % (x, r.text)
        elif isinstance(l, Leaf) and l.kind == "dbl":
            x = self.ev(r)
            c = "(-mpz_cmp_d(%s, (double)(%s)))" % (x, l.text)
        else:
            x = self.ev(l)
            y = self.ev(r)
            c = "mpz_cmp(%s, %s)" % (x, y)
        if op == "cmp":
            return "((%s) > 0) - ((%s) < 0)" % (c, c)
        return "((%s) %s 0)" % (c, op)


ZLITS = [
    Leaf("si", "(signed char)-5", -5), Leaf("ui", "(unsigned char)200", 200), Leaf("si", "(short)-300", -300), Leaf("ui", "(unsigned short)60000", 60000),
    Leaf("si", "0", 0), Leaf("si", "1", 1), Leaf("si", "2", 2), Leaf("si", "-1", -1), Leaf("si", "-7", -7), Leaf("si", "1000000", 1000000), Leaf("si", "64", 64),
    Leaf("ui", "4u", 4), Leaf("ui", "0u", 0), Leaf("si", "-1L", -1), Leaf("si", "(-9223372036854775807L-1)", LMIN), Leaf("si", "9223372036854775807L", LMAX),
    Leaf("ui", "18446744073709551615UL", UMAX), Leaf("ui", "8UL", 8), Leaf("dbl", "2.5", 2.5), Leaf("dbl", "-3.0", -3.0), Leaf("dbl", "1e10", 1e10),
    Leaf("dbl", "1.5f", 1.5), Leaf("dbl", "-1e20", -1e20),
]
ZNONCONST = [Leaf("si", "nc_l", -12345, const=False), Leaf("ui", "nc_u", 3, const=False), Leaf("dbl", "nc_d", 7.75, const=False), Leaf("si", "nc_z", 0, const=False),
             Leaf("ui", "nc_one", 1, const=False), Leaf("si", "nc_neg2", -2, const=False)]
ZVARS = [Leaf("var", "a", None), Leaf("var", "b", None), Leaf("var", "c", None)]
SHIFTS = [Leaf("ui", "0", 0), Leaf("ui", "1", 1), Leaf("ui", "63", 63), Leaf("ui", "64", 64), Leaf("ui", "65", 65), Leaf("ui", "130u", 130), Leaf("ui", "nc_u", 3, const=False)]
PRELUDE_NC = "volatile long nc_l = -12345; volatile unsigned long nc_u = 3; volatile double nc_d = 7.75; volatile long nc_z = 0; volatile unsigned long nc_one = 1; volatile long nc_neg2 = -2;"

# value rounds for (a, b, c): b and c never zero
ZROUNDS = [
    (0, 1, -1), (5, -3, 7), (-(1 << 64), (1 << 64) - 1, 3), ((1 << 130) + 12345, -(1 << 65) - 1, 1 << 63), (-1, 2, -(1 << 200) + 1),
    (12345678901234567890123, 97, -64), (LMIN, LMAX, UMAX), (1 << 64, -(1 << 64), 1 << 32),
]


def z_depth1(full=True):
    out = []
    rights = ZVARS + ZLITS + ZNONCONST
    for op in ZBIN:
        for l in rights:
            for r in rights:
                if not (is_class(l) or is_class(r)):
                    continue
                out.append(Node(op, [l, r]))
    for op in ZSHIFT:
        for l in ZVARS:
            for r in SHIFTS:
                out.append(Node(op, [l, r]))
    for op, nm in (("-", "neg"), ("~", "com"), ("+", "pos")):
        for v in ZVARS:
            out.append(Node(nm, [v]))
    for f in ZFUN1:
        for v in ZVARS:
            out.append(Node(f, [v]) if f != "sqrt" else Node("sqrt", [Node("abs", [v])]))
    for f in ZFUN2:
        for l in ZVARS:
            for r in ZVARS + ZLITS[:6]:
                if is_class(r):
                    out.append(Node(f, [l, r]))
    return out


def z_cmp1():
    out = []
    rights = ZVARS + ZLITS + ZNONCONST
    for op in ZCMP + ["cmp"]:
        for l in rights:
            for r in rights:
                if is_class(l) or is_class(r):
                    out.append(Node(op, [l, r]))
    for v in ZVARS:
        out.append(Node("sgn", [v]))
    return out


def z_depth2(inner_small, outer_leaves, ops=None):
    out = []
    for inner in inner_small:
        for op in (ops or ZBIN):
            for x in outer_leaves:
                out.append(Node(op, [inner, x]))
                out.append(Node(op, [x, inner]))
        for op in ZSHIFT:
            for s in SHIFTS[:4]:
                out.append(Node(op, [inner, s]))
        for nm in ("neg", "com", "abs"):
            out.append(Node(nm, [inner]))
    return out


def z_inner_small():
    out = []
    lits = [ZLITS[4], ZLITS[6], ZLITS[8], ZLITS[16], ZLITS[18], ZNONCONST[0]]
    for op in ZBIN:
        for l in ZVARS:
            for r in ZVARS:
                out.append(Node(op, [l, r]))
            for r in lits:
                out.append(Node(op, [l, r]))
                out.append(Node(op, [r, l]))
    for op in ZSHIFT:
        for l in ZVARS[:2]:
            for s in (SHIFTS[1], SHIFTS[3]):
                out.append(Node(op, [l, s]))
    for nm in ("neg", "com", "abs"):
        out.append(Node(nm, [ZVARS[0]]))
    return out


def valid_all_rounds(e, rounds, names=("a", "b", "c")):
    vals = []
    for rd in rounds:
        env = dict(zip(names, rd))
        try:
            v = zval(e, env)
        except (ZeroDivisionError, ValueError, OverflowError):
            return None
        if isinstance(v, int) and abs(v).bit_length() > 20000:
            return None
        vals.append(v)
    return vals


def z_statement(idx, e, target, compound=None):
    """C++ source of one statement block; prints 'idx round got expected'.  target: 'r' or a variable name occurring in e.
    compound: None or an operator text for `target op= e`."""
    em = CEmit()
    is_int = isinstance(e, Node) and (e.op in ZCMP or e.op in ("cmp", "sgn"))
    L = []
    if is_int:
        ce = em.ev_int(e)
        L += em.lines
        L.append("{ long got = (long)(%s); long ex = (long)(%s); out_int(%d, rd, got, ex); }" % (cxx(e), ce, idx))
        return "\n      ".join(L)
    if compound is None:
        t = em.ev(e)
        L += em.lines
        if target == "r":
            L.append("{ mpz_class r; r = %s; out_z(%d, rd, r.get_mpz_t(), %s); }" % (cxx(e), idx, t))
        else:
            L.append("{ mpz_class sv(%s); %s = %s; out_z(%d, rd, %s.get_mpz_t(), %s); %s = sv; }" % (target, target, cxx(e), idx, target, t, target))
    else:
        t = em.ev(Node(compound, [Leaf("var", target, None), e]))
        L += em.lines
        L.append("{ mpz_class sv(%s); %s %s= %s; out_z(%d, rd, %s.get_mpz_t(), %s); %s = sv; }" % (target, target, compound, cxx(e), idx, target, t, target))
    return "\n      ".join(L)


Z_HEADER = r'''
#include <cstdio>
#include <cstdlib>
#include <climits>
#include "mpir.h"
#include "mpirxx.h"
static mpz_t T[24];
static long mism = 0;
static void out_z(int idx, int rd, mpz_srcptr got, mpz_srcptr ex) {
  char *g = mpz_get_str(0, 16, got);
  if (mpz_cmp(got, ex) != 0) { char *e = mpz_get_str(0, 16, ex); printf("M %d %d %s %s\n", idx, rd, g, e); mism++; free(e); }
  else printf("Z %d %d %s\n", idx, rd, g);
  free(g);
}
static void out_int(int idx, int rd, long got, long ex) {
  if (got != ex) { printf("M %d %d %ld %ld\n", idx, rd, got, ex); mism++; } else printf("I %d %d %ld\n", idx, rd, got);
}
'''


def z_program(stmts, rounds):
    """stmts: list of (idx, source).  Returns the text of one translation unit."""
    L = [Z_HEADER, PRELUDE_NC]
    # split into functions of 150 statements to keep the compiler fast
    chunks = [stmts[i:i + 150] for i in range(0, len(stmts), 150)]
    for ci, ch in enumerate(chunks):
        L.append("static void run%d(int rd, mpz_class &a, mpz_class &b, mpz_class &c) {" % ci)
        for idx, src in ch:
            L.append("    { " + src + " }")
        L.append("}")
    L.append("int main() {")
    L.append("  setvbuf(stdout, 0, _IOLBF, 0);")
    L.append("  for (int i = 0; i < 24; i++) mpz_init(T[i]);")
    L.append("  static const char *vals[][3] = {")
    for rd in rounds:
        L.append("    {\"%s\", \"%s\", \"%s\"}," % tuple(("-" if v < 0 else "") + "%x" % abs(v) for v in rd))
    L.append("  };")
    L.append("  for (int rd = 0; rd < %d; rd++) {" % len(rounds))
    L.append("    mpz_class a(vals[rd][0], 16), b(vals[rd][1], 16), c(vals[rd][2], 16);")
    for ci in range(len(chunks)):
        L.append("    run%d(rd, a, b, c);" % ci)
    L.append("  }")
    L.append("  printf(\"DONE %ld\\n\", mism);")
    L.append("  return 0;\n}")
    return "\n".join(L)



def z_incdec(idx, var, form):
    """form in ('++x','x++','--x','x--'): value of the expression and of the variable afterwards"""
    d = 1 if "++" in form else -1
    pre = form.startswith("++") or form.startswith("--")
    txt = form.replace("x", var)
    L = ["mpz_set(T[0], %s.get_mpz_t());" % var,
         "if (%d > 0) mpz_add_ui(T[1], T[0], 1); else mpz_sub_ui(T[1], T[0], 1);" % d,
         "{ mpz_class sv(%s); mpz_class r; r = %s; out_z(%d, rd, r.get_mpz_t(), %s); out_z(%d, rd, %s.get_mpz_t(), T[1]); %s = sv; }" % (
             var, txt, idx, "T[1]" if pre else "T[0]", idx + 1, var, var)]
    return "\n      ".join(L)


# ------------------------------------------------------------------ mpq_class
QBIN = ["+", "-", "*", "/"]
QROUNDS = [(Fraction(0), Fraction(1), Fraction(-1, 2)), (Fraction(5, 3), Fraction(-7, 4), Fraction(1 << 64, 3)), (Fraction(-(1 << 130) - 1, 1 << 70), Fraction(3, (1 << 64) + 1), Fraction(-9)),
           (Fraction(22, 7), Fraction(-1, 1 << 64), Fraction((1 << 64) - 1, (1 << 64) + 1))]
QLITS = [Leaf("si", "0", 0), Leaf("si", "1", 1), Leaf("si", "2", 2), Leaf("si", "-3", -3), Leaf("ui", "4u", 4), Leaf("si", "(short)-300", -300), Leaf("ui", "18446744073709551615UL", UMAX),
         Leaf("si", "(-9223372036854775807L-1)", LMIN), Leaf("dbl", "2.5", 2.5), Leaf("dbl", "-0.375", -0.375), Leaf("dbl", "1e10", 1e10), Leaf("si", "nc_l", -12345, const=False),
         Leaf("dbl", "nc_d", 7.75, const=False)]
QVARS = [Leaf("var", "a", None), Leaf("var", "b", None), Leaf("var", "c", None)]


def qval(e, env):
    if isinstance(e, Leaf):
        if e.kind == "var":
            return env[e.text]
        return Fraction(e.value)
    a = [qval(x, env) for x in e.args]
    op = e.op
    if op in ZCMP:
        l, r = a
        return int({"==": l == r, "!=": l != r, "<": l < r, "<=": l <= r, ">": l > r, ">=": l >= r}[op])
    if op == "cmp":
        return (a[0] > a[1]) - (a[0] < a[1])
    if op == "sgn":
        return (a[0] > 0) - (a[0] < 0)
    if op == "neg":
        return -a[0]
    if op == "pos":
        return a[0]
    if op == "abs":
        return abs(a[0])
    if op == "+":
        return a[0] + a[1]
    if op == "-":
        return a[0] - a[1]
    if op == "*":
        return a[0] * a[1]
    if op == "/":
        return a[0] / a[1]
    if op == "<<":
        return a[0] * (1 << int(a[1]))
    if op == ">>":
        return a[0] / (1 << int(a[1]))
    raise KeyError(op)


class QEmit:
    def __init__(self):
        self.lines = []
        self.n = 0

    def tmp(self):
        self.n += 1
        return "TQ[%d]" % (self.n - 1)

    def ev(self, e):
        if isinstance(e, Leaf):
            t = self.tmp()
            if e.kind == "var":
                self.lines.append("mpq_set(%s, %s.get_mpq_t());" % (t, e.text))
            elif e.kind == "si":
                self.lines.append("mpq_set_si(%s, (long)(%s), 1);" % (t, e.text))
            elif e.kind == "ui":
                self.lines.append("mpq_set_ui(%s, (unsigned long)(%s), 1);" % (t, e.text))
            else:
                self.lines.append("mpq_set_d(%s, (double)(%s));" % (t, e.text))
            return t
        op = e.op
        if op in ("neg", "abs", "pos"):
            x = self.ev(e.args[0])
            t = self.tmp()
            self.lines.append("%s(%s, %s);" % ({"neg": "mpq_neg", "abs": "mpq_abs", "pos": "mpq_set"}[op], t, x))
            return t
        if op in ("<<", ">>"):
            x = self.ev(e.args[0])
            t = self.tmp()
            self.lines.append("%s(%s, %s, (mp_bitcnt_t)(%s));" % ("mpq_mul_2exp" if op == "<<" else "mpq_div_2exp", t, x, e.args[1].text))
            return t
        l = self.ev(e.args[0])
        r = self.ev(e.args[1])
        t = self.tmp()
        self.lines.append("%s(%s, %s, %s);" % ({"+": "mpq_add", "-": "mpq_sub", "*": "mpq_mul", "/": "mpq_div"}[op], t, l, r))
        return t

    def ev_int(self, e):
        if e.op == "sgn":
            return "mpq_sgn(%s)" % self.ev(e.args[0])
        x = self.ev(e.args[0])
        y = self.ev(e.args[1])
        c = "mpq_cmp(%s, %s)" % (x, y)
        if e.op == "cmp":
            return "((%s) > 0) - ((%s) < 0)" % (c, c)
        return "((%s) %s 0)" % (c, e.op)


def q_exprs(quick=True):
    out = []
    leaves = QVARS + QLITS
    for op in QBIN:
        for l in leaves:
            for r in leaves:
                if is_class(l) or is_class(r):
                    out.append(Node(op, [l, r]))
    for op in ZSHIFT:
        for l in QVARS:
            for s in SHIFTS:
                out.append(Node(op, [l, s]))
    for nm in ("neg", "abs", "pos"):
        for v in QVARS:
            out.append(Node(nm, [v]))
    d1 = list(out)
    inner = [Node(op, [l, r]) for op in QBIN for l in QVARS for r in QVARS + [QLITS[2], QLITS[3], QLITS[8]]]
    inner += [Node(op, [r, l]) for op in QBIN for l in QVARS for r in [QLITS[2], QLITS[3], QLITS[8]]]
    inner += [Node("neg", [QVARS[0]]), Node("abs", [QVARS[1]]), Node("<<", [QVARS[2], SHIFTS[3]])]
    outer_leaves = QVARS + [QLITS[1], QLITS[3], QLITS[8], QLITS[11]]
    for i in inner:
        for op in QBIN:
            for x in outer_leaves:
                out.append(Node(op, [i, x]))
                out.append(Node(op, [x, i]))
        out.append(Node("neg", [i]))
        out.append(Node("abs", [i]))
        out.append(Node(">>", [i, SHIFTS[4]]))
    if not quick:
        for i in inner[::2]:
            for j in inner[1::3]:
                for op in QBIN:
                    out.append(Node(op, [i, j]))
    cmps = []
    for op in ZCMP + ["cmp"]:
        for l in leaves:
            for r in leaves:
                if is_class(l) or is_class(r):
                    cmps.append(Node(op, [l, r]))
        for i in inner[:12]:
            cmps.append(Node(op, [i, QVARS[1]]))
    for v in QVARS:
        cmps.append(Node("sgn", [v]))
    return out, cmps, d1


def q_valid(e, rounds):
    vals = []
    for rd in rounds:
        env = dict(zip("abc", rd))
        try:
            v = qval(e, env)
        except ZeroDivisionError:
            return None
        vals.append(v)
    return vals


def q_statement(idx, e, target, compound=None):
    em = QEmit()
    is_int = isinstance(e, Node) and (e.op in ZCMP or e.op in ("cmp", "sgn"))
    L = []
    if is_int:
        ce = em.ev_int(e)
        L += em.lines
        L.append("{ long got = (long)(%s); long ex = (long)(%s); out_int(%d, rd, got, ex); }" % (cxx(e), ce, idx))
    elif compound is None:
        t = em.ev(e)
        L += em.lines
        if target == "r":
            L.append("{ mpq_class r; r = %s; out_q(%d, rd, r.get_mpq_t(), %s); }" % (cxx(e), idx, t))
        else:
            L.append("{ mpq_class sv(%s); %s = %s; out_q(%d, rd, %s.get_mpq_t(), %s); %s = sv; }" % (target, target, cxx(e), idx, target, t, target))
    else:
        t = em.ev(Node(compound, [Leaf("var", target, None), e]))
        L += em.lines
        L.append("{ mpq_class sv(%s); %s %s= %s; out_q(%d, rd, %s.get_mpq_t(), %s); %s = sv; }" % (target, target, compound, cxx(e), idx, target, t, target))
    return "\n      ".join(L)


Q_HEADER = Z_HEADER + r"""
static mpq_t TQ[24];
static void out_q(int idx, int rd, mpq_srcptr got, mpq_srcptr ex) {
  char *g = mpq_get_str(0, 16, got);
  if (!mpq_equal(got, ex) || mpz_cmp(mpq_numref(got), mpq_numref(ex)) || mpz_cmp(mpq_denref(got), mpq_denref(ex))) {
    char *e = mpq_get_str(0, 16, ex); printf("M %d %d %s %s\n", idx, rd, g, e); mism++; free(e); }
  else printf("Q %d %d %s\n", idx, rd, g);
  free(g);
}
"""


def q_program(stmts, rounds):
    L = [Q_HEADER, PRELUDE_NC]
    chunks = [stmts[i:i + 150] for i in range(0, len(stmts), 150)]
    for ci, ch in enumerate(chunks):
        L.append("static void run%d(int rd, mpq_class &a, mpq_class &b, mpq_class &c) {" % ci)
        for idx, src in ch:
            L.append("    { " + src + " }")
        L.append("}")
    L.append("int main() {")
    L.append("  setvbuf(stdout, 0, _IOLBF, 0);")
    L.append("  for (int i = 0; i < 24; i++) { mpz_init(T[i]); mpq_init(TQ[i]); }")
    L.append("  static const char *vals[][3] = {")
    def qs(v):
        return ("-" if v < 0 else "") + "%x/%x" % (abs(v.numerator), v.denominator)
    for rd in rounds:
        L.append("    {\"%s\", \"%s\", \"%s\"}," % tuple(qs(v) for v in rd))
    L.append("  };")
    L.append("  for (int rd = 0; rd < %d; rd++) {" % len(rounds))
    L.append("    mpq_class a(vals[rd][0], 16), b(vals[rd][1], 16), c(vals[rd][2], 16);")
    for ci in range(len(chunks)):
        L.append("    run%d(rd, a, b, c);" % ci)
    L.append("  }")
    L.append("  printf(\"DONE %ld\\n\", mism);")
    L.append("  return 0;\n}")
    return "\n".join(L)
