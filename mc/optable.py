"""Table-driven calls of mpz-level functions with a Python oracle, every alias pattern, allocation classes,
well-formedness and input-preservation checks.  Used by C02, C05, C07, C08, C09, C16, C04.

An Op is (name, sig, oracle):
  sig  = return type + parameters, one char each:
         return: v void, i int, u ulong, l long
         params: Z mpz output, W mpz in/out (accumulator), z mpz input, u ulong, s long, b bit count (ulong), i int
  oracle(*input values in parameter order, W contributes its old value) -> None when the case is outside the
         assertable domain, else a tuple (out values in Z/W parameter order ..., return value if not void).
         An output value of None means "unspecified, do not compare" (e.g. rop of a failed mpz_invert).
"""
import ctypes
from ctypes import c_void_p, c_long, c_ulong, c_int
from . import lib, alphabet as al

_CT = {"Z": c_void_p, "W": c_void_p, "z": c_void_p, "u": c_ulong, "s": c_long, "b": c_ulong, "i": c_int}
_RT = {"v": None, "i": c_int, "u": c_ulong, "l": c_long}


class Op:
    def __init__(self, name, sig, oracle, noalias=(), symbol=None):
        self.name, self.sig, self.oracle = name, sig, oracle
        self.ret = sig[0]
        self.params = sig[1:]
        self.noalias = set(noalias)      # pairs (out_index, out_index) that may not be the same object are implicit (all outs distinct)
        self.symbol = symbol or name
        self._f = None
        self.outs = [i for i, c in enumerate(self.params) if c in "ZW"]
        self.zins = [i for i, c in enumerate(self.params) if c in "zW"]

    def f(self):
        if self._f is None:
            self._f = lib.fn(self.symbol, _RT[self.ret], *[_CT[c] for c in self.params])
        return self._f

    def alias_patterns(self):
        """every way to identify output objects with input objects: list of dicts out_param_index -> in_param_index.
        Outputs are pairwise distinct objects; several inputs may also be one object (handled by `same_inputs`)."""
        zin = [i for i, c in enumerate(self.params) if c == "z"]
        outs = [i for i, c in enumerate(self.params) if c == "Z"]
        pats = [{}]
        for o in outs:
            new = []
            for p in pats:
                new.append(p)
                for i in zin:
                    if i not in p.values():          # two outputs cannot share one object
                        q = dict(p)
                        q[o] = i
                        new.append(q)
            pats = new
        return pats


class Pool:
    """per-process pool of real mpz objects"""

    def __init__(self, n=8):
        self.z = [lib.Z() for _ in range(n)]


_pool = None


def pool():
    global _pool
    if _pool is None:
        _pool = Pool()
    return _pool


JUNK = (0x1234567, -0x7654321FEDCBA9876543210F, 0)


def run(op, args, alias=None, same_inputs=False, out_alloc=None, R=None, tag=None, junk=0):
    """execute op on fresh values. args: values for every parameter that carries one (z,W,u,s,b,i) in parameter order
    (Z parameters take no value).  alias: dict out_param_index -> in_param_index.
    same_inputs: if all z inputs have equal values, pass ONE object for all of them.
    Returns (ok, outs, ret) ; failures are reported through R.fail(tag or op.name, ...)."""
    alias = alias or {}
    P = pool().z
    params = op.params
    vals = {}
    ai = 0
    for i, c in enumerate(params):
        if c != "Z":
            vals[i] = args[ai]
            ai += 1
    exp = op.oracle(*[vals[i] for i in range(len(params)) if i in vals])
    if exp is None:
        return None
    objs = {}
    k = 0
    first_in = None
    for i, c in enumerate(params):
        if c in "zW":
            if same_inputs and c == "z" and first_in is not None and vals[i] == vals[first_in]:
                objs[i] = objs[first_in]
                continue
            z = P[k]
            k += 1
            z.set(vals[i])
            objs[i] = z
            if c == "z" and first_in is None:
                first_in = i
    for i, c in enumerate(params):
        if c == "Z":
            if i in alias:
                objs[i] = objs[alias[i]]
            else:
                z = P[k]
                k += 1
                if out_alloc is not None:
                    z.set(JUNK[junk % 3], alloc=out_alloc)
                else:
                    z.set(JUNK[junk % 3])
                objs[i] = z
    cargs = []
    for i, c in enumerate(params):
        cargs.append(objs[i].p if c in "ZWz" else vals[i])
    ret = op.f()(*cargs)
    name = tag or op.name
    ok = True
    outs = []
    oi = 0
    for i, c in enumerate(params):
        if c in "ZW":
            g = objs[i].get()
            outs.append(g)
            e = exp[oi]
            oi += 1
            if e is not None and g != e:
                ok = False
                if R:
                    R.fail(name, "output %d: got %s expected %s; args %s alias %s" % (oi - 1, _h(g), _h(e), [_h(a) for a in args], alias))
            m = objs[i].wf()
            if m:
                ok = False
                if R:
                    R.fail(name, "output %d ill-formed: %s; args %s" % (oi - 1, m, [_h(a) for a in args]))
    if op.ret != "v":
        e = exp[oi]
        if e is not None:
            bad = (ret != e) if op.ret != "i" or not isinstance(e, bool) else (bool(ret) != e)
            if bad:
                ok = False
                if R:
                    R.fail(name, "returned %r expected %r; args %s alias %s" % (ret, e, [_h(a) for a in args], alias))
    written = set(id(objs[i]) for i in op.outs)
    for i, c in enumerate(params):
        if c == "z" and id(objs[i]) not in written:
            if objs[i].get() != vals[i]:
                ok = False
                if R:
                    R.fail(name, "input parameter %d modified; args %s" % (i, [_h(a) for a in args]))
    return ok, outs, ret


def _h(v):
    if isinstance(v, int):
        return hex(v) if abs(v) > 9 else str(v)
    return repr(v)


# ------------------------------------------------------------------ oracles
def tdiv(n, d):
    q = abs(n) // abs(d)
    if (n < 0) != (d < 0):
        q = -q
    return q, n - q * d


def fdiv(n, d):
    q = n // d
    return q, n - q * d


def cdiv(n, d):
    q = -((-n) // d)
    return q, n - q * d


DIVF = {"t": tdiv, "f": fdiv, "c": cdiv}
UMAX = (1 << 64) - 1
OPS = {}


def _add(name, sig, oracle, **kw):
    OPS[name] = Op(name, sig, oracle, **kw)


def _mk_div():
    for k, fdv in DIVF.items():
        def mk(fdv=fdv):
            return fdv
        f = fdv
        _add("mpz_%sdiv_q" % k, "vZzz", lambda n, d, f=f: None if d == 0 else (f(n, d)[0],))
        _add("mpz_%sdiv_r" % k, "vZzz", lambda n, d, f=f: None if d == 0 else (f(n, d)[1],))
        _add("mpz_%sdiv_qr" % k, "vZZzz", lambda n, d, f=f: None if d == 0 else f(n, d))
        _add("mpz_%sdiv_q_ui" % k, "uZzu", lambda n, d, f=f: None if d == 0 else (f(n, d)[0], abs(f(n, d)[1])))
        _add("mpz_%sdiv_r_ui" % k, "uZzu", lambda n, d, f=f: None if d == 0 else (f(n, d)[1], abs(f(n, d)[1])))
        _add("mpz_%sdiv_qr_ui" % k, "uZZzu", lambda n, d, f=f: None if d == 0 else (f(n, d)[0], f(n, d)[1], abs(f(n, d)[1])))
        _add("mpz_%sdiv_ui" % k, "uzu", lambda n, d, f=f: None if d == 0 else (abs(f(n, d)[1]),))
        _add("mpz_%sdiv_q_2exp" % k, "vZzb", lambda n, b, f=f: (f(n, 1 << b)[0],))
        _add("mpz_%sdiv_r_2exp" % k, "vZzb", lambda n, b, f=f: (f(n, 1 << b)[1],))
    _add("mpz_mod", "vZzz", lambda n, d: None if d == 0 else (n % abs(d),))
    _add("mpz_mod_ui", "uZzu", lambda n, d: None if d == 0 else (n % d, n % d), symbol="mpz_fdiv_r_ui")
    _add("mpz_divexact", "vZzz", lambda n, d: None if d == 0 or n % d else (n // d,))
    _add("mpz_divexact_ui", "vZzu", lambda n, d: None if d == 0 or n % d else (n // d,))
    _add("mpz_divisible_p", "izz", lambda n, d: ((n == 0) if d == 0 else (n % d == 0),))
    _add("mpz_divisible_ui_p", "izu", lambda n, d: ((n == 0) if d == 0 else (n % d == 0),))
    _add("mpz_divisible_2exp_p", "izb", lambda n, b: (n % (1 << b) == 0,))
    _add("mpz_congruent_p", "izzz", lambda n, c, d: ((n == c) if d == 0 else ((n - c) % d == 0),))
    _add("mpz_congruent_ui_p", "izuu", lambda n, c, d: ((n == c) if d == 0 else ((n - c) % d == 0),))
    _add("mpz_congruent_2exp_p", "izzb", lambda n, c, b: ((n - c) % (1 << b) == 0,))


_mk_div()


# ------------------------------------------------------------------ C07 gcd family
import math


def sgn(x):
    return (x > 0) - (x < 0)


def gcdext_ref(a, b):
    """(g, s, t) exactly as the manual defines them (unique)"""
    g = math.gcd(a, b)
    if g == 0:
        return 0, 0, 0
    if abs(a) == abs(b):
        return g, 0, sgn(b)
    if b == 0:
        return g, sgn(a), 0
    if a == 0:
        return g, 0, sgn(b)
    m = abs(b) // g
    if m == 1:
        s = 0
    elif m == 2:
        s = sgn(a)
    else:
        s0 = pow(a // g, -1, m)
        s = s0 if 2 * s0 < m else s0 - m
    t = (g - a * s) // b
    return g, s, t


def kronecker_ref(a, b):
    """Kronecker symbol (a/b) for all integers (Cohen 1.4.2)"""
    if b == 0:
        return 1 if abs(a) == 1 else 0
    if a % 2 == 0 and b % 2 == 0:
        return 0
    v = 0
    while b % 2 == 0:
        v += 1
        b //= 2
    k = 1
    if v % 2 and a % 8 in (3, 5):
        k = -1
    if b < 0:
        b = -b
        if a < 0:
            k = -k
    # now b odd positive: Jacobi
    a %= b
    while a:
        while a % 2 == 0:
            a //= 2
            if b % 8 in (3, 5):
                k = -k
        a, b = b, a
        if a % 4 == 3 and b % 4 == 3:
            k = -k
        a %= b
    return k if b == 1 else 0


LMIN, LMAX = -(1 << 63), (1 << 63) - 1


def _gcd_ui(a, u):
    g = math.gcd(a, u)
    return (g, g if g <= UMAX else 0)


_add("mpz_gcd", "vZzz", lambda a, b: (math.gcd(a, b),))
_add("mpz_gcd_ui", "uZzu", _gcd_ui)
_add("mpz_gcdext", "vZZZzz", lambda a, b: gcdext_ref(a, b))
_add("mpz_lcm", "vZzz", lambda a, b: (0 if a == 0 or b == 0 else abs(a * b) // math.gcd(a, b),))
_add("mpz_lcm_ui", "vZzu", lambda a, b: (0 if a == 0 or b == 0 else abs(a * b) // math.gcd(a, b),))


def _invert(a, m):
    if abs(m) <= 1:
        return None
    if math.gcd(a, m) != 1:
        return (None, False)
    return (pow(a, -1, abs(m)), True)


_add("mpz_invert", "iZzz", _invert)
_add("mpz_jacobi", "izz", lambda a, b: None if b % 2 == 0 else (kronecker_ref(a, b),))
_add("mpz_kronecker", "izz", lambda a, b: (kronecker_ref(a, b),), symbol="mpz_jacobi")
_add("mpz_legendre", "izz", lambda a, b: None if (b % 2 == 0 or b < 3) else (kronecker_ref(a, b),), symbol="mpz_jacobi")
_add("mpz_kronecker_si", "izs", lambda a, b: (kronecker_ref(a, b),))
_add("mpz_kronecker_ui", "izu", lambda a, b: (kronecker_ref(a, b),))
_add("mpz_si_kronecker", "isz", lambda a, b: (kronecker_ref(a, b),))
_add("mpz_ui_kronecker", "iuz", lambda a, b: (kronecker_ref(a, b),))


# ------------------------------------------------------------------ C08 powers
def _powm(b, e, m):
    if m == 0:
        return None
    if e < 0:
        if abs(m) <= 1 or math.gcd(b, m) != 1:
            return None
    return (pow(b, e, abs(m)),)


_add("mpz_powm", "vZzzz", _powm)
_add("mpz_powm_ui", "vZzuz", lambda b, e, m: None if m == 0 else (pow(b, e, abs(m)),))
_add("mpz_pow_ui", "vZzu", lambda b, e: (b ** e,))
_add("mpz_ui_pow_ui", "vZuu", lambda b, e: (b ** e,))


# ------------------------------------------------------------------ C09 roots
def iroot(u, n):
    """floor of the n-th root of u >= 0"""
    if u < 2 or n == 1:
        return u
    if n >= u.bit_length():
        return 1
    r = 1 << -(-u.bit_length() // n)       # >= true root
    while True:
        # Newton from above
        t = ((n - 1) * r + u // r ** (n - 1)) // n
        if t >= r:
            break
        r = t
    while r ** n > u:
        r -= 1
    while (r + 1) ** n <= u:
        r += 1
    return r


def troot(u, n):
    """truncated n-th root; None if undefined (even root of a negative, n == 0)"""
    if n == 0:
        return None
    if u < 0:
        if n % 2 == 0:
            return None
        return -iroot(-u, n)
    return iroot(u, n)


_small_primes = [p for p in range(2, 20000) if all(p % q for q in range(2, int(p ** 0.5) + 1))]


def is_perfect_power(u):
    """u = a^b with b > 1 (0, 1 and -1 count; negative u only odd powers)"""
    if u in (0, 1, -1):
        return True
    a = abs(u)
    L = a.bit_length()
    for e in _small_primes:
        if e > L:
            break
        if u < 0 and e == 2:
            continue
        r = iroot(a, e)
        if r ** e == a:
            return True
    return False


def _root(u, n):
    r = troot(u, n)
    if r is None:
        return None
    return (r, r ** n == u)


def _rootrem(u, n):
    r = troot(u, n)
    if r is None:
        return None
    return (r, u - r ** n)


_add("mpz_sqrt", "vZz", lambda u: None if u < 0 else (math.isqrt(u),))
_add("mpz_sqrtrem", "vZZz", lambda u: None if u < 0 else (math.isqrt(u), u - math.isqrt(u) ** 2))
_add("mpz_root", "iZzu", _root)
_add("mpz_nthroot", "vZzu", lambda u, n: None if troot(u, n) is None else (troot(u, n),))
_add("mpz_rootrem", "vZZzu", _rootrem)
_add("mpz_perfect_square_p", "iz", lambda u: (u >= 0 and math.isqrt(u) ** 2 == u,))
_add("mpz_perfect_power_p", "iz", lambda u: (is_perfect_power(u),))
