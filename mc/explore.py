"""Sharded exhaustive enumerator.

A Space is a finite, deterministically ordered set of cases, partitioned in blocks:
    Space(name, blocks, cases, one, doc)
      blocks : list of small picklable block descriptors
      cases(block) : iterator over cases (tuples of ints/strs; repr()-able, literal_eval()-able)
      one(case, R) : executes the case on the real library, checks it against the oracle, calls
                     R.fail(kind, msg) on a violation and returns an outcome signature (hashable) or None.
Every case of every block is executed (no sampling); blocks are handed to 16 forked workers from a shared counter.
A global deadline stops the hand-out of further blocks; the run then reports exhaustive=False and what was completed.
"""
import os, sys, time, json, mmap, struct, signal, pickle, traceback, ast, multiprocessing as mp

try:
    sys.set_int_max_str_digits(0)
except AttributeError:
    pass


def crepr(x):
    """repr() with big integers in hex (fast, literal_eval-able)"""
    if isinstance(x, bool) or x is None:
        return repr(x)
    if isinstance(x, int):
        return hex(x) if (x > 0xFFFFFFFF or x < -0xFFFFFFFF) else repr(x)
    if isinstance(x, tuple):
        return "(" + ", ".join(crepr(e) for e in x) + ("," if len(x) == 1 else "") + ")"
    if isinstance(x, list):
        return "[" + ", ".join(crepr(e) for e in x) + "]"
    return repr(x)

NWORK = int(os.environ.get("VERIF_WORKERS", "16"))
MAX_FAILS = 12


class Space:
    def __init__(self, name, blocks, cases, one, doc=""):
        self.name, self.blocks, self.cases, self.one, self.doc = name, list(blocks), cases, one, doc


class Rec:
    """per-worker recorder"""

    def __init__(self):
        self.n = 0
        self.sigs = set()
        self.fails = []
        self.samples = []
        self.space = None
        self.block = None
        self.case = None
        self.nfail = 0
        self.extra = {}        # free-form counters, summed across workers

    def fail(self, kind, msg, **kw):
        self.nfail += 1
        if len(self.fails) < MAX_FAILS:
            d = {"space": self.space, "block": self.block, "case": crepr(self.case), "kind": kind, "msg": str(msg)[:600]}
            d.update(kw)
            self.fails.append(d)

    def count(self, key, k=1):
        self.extra[key] = self.extra.get(key, 0) + k


BEACON_SZ = 4096


def _worker(wid, spaces, counter, nblocks_total, order, deadline, beacon_path, conn, slow):
    R = Rec()
    done_blocks = 0
    per_space = {}
    last_flush = time.time()
    mon_err = None
    try:
        from . import lib as _lib
        if getattr(_lib, "S", None) is not None:
            import ctypes as _ct
            mon_err = _ct.c_int.in_dll(_lib.S, "v_alloc_errors")
    except Exception:
        mon_err = None
    bf = open(beacon_path, "r+b")
    bm = mmap.mmap(bf.fileno(), BEACON_SZ * NWORK)
    off = wid * BEACON_SZ
    try:
        while True:
            if time.time() > deadline:
                break
            with counter.get_lock():
                i = counter.value
                counter.value += 1
            if i >= nblocks_total:
                break
            si, bi = order[i]
            sp = spaces[si]
            blk = sp.blocks[bi]
            R.space, R.block = sp.name, blk
            struct.pack_into("<qqq", bm, off, si, bi, 0)
            n0 = R.n
            one = sp.one
            sigs = R.sigs
            first = True
            case = None
            k = 0
            last_b = time.time()
            slow_cases = False
            for case in sp.cases(blk):
                R.case = case
                R.n += 1
                k += 1
                if slow:
                    b = crepr(case).encode()[:BEACON_SZ - 40]
                    struct.pack_into("<qqqq", bm, off, si, bi, k, len(b))
                    bm[off + 32:off + 32 + len(b)] = b
                elif k & 3 == 0 or slow_cases:
                    now = time.time()
                    slow_cases = now - last_b > 0.05        # cases of this block are slow: look at the clock after every one of them
                    if now - last_b > 0.5:       # progress beacon: a stall then means "a few cases did not finish", not "a block did not finish"
                        last_b = now
                        struct.pack_into("<q", bm, off + 16, k)
                try:
                    sg = one(case, R)
                except AssertionError:
                    raise
                except Exception as e:        # harness error: never silently dropped
                    R.fail("harness-exception", traceback.format_exc()[-500:])
                    sg = None
                if mon_err is not None and mon_err.value:
                    # global monitor (every property): the recording allocator saw a contract violation or damaged guard bytes
                    # that the property module itself did not consume
                    R.fail("memory-monitor", "allocator contract / guard bytes: %s" % _lib.alloc_msg())
                    _lib.S.v_reset_errors()
                if sg is not None:
                    sigs.add((si, sg))
                if first:
                    first = False
                    if len(R.samples) < 40:
                        R.samples.append({"space": sp.name, "block": crepr(blk)[:200], "case": crepr(case)[:400]})
            if case is not None and len(R.samples) < 40 and k > 1:
                R.samples.append({"space": sp.name, "block": crepr(blk)[:200], "case": crepr(case)[:400]})
            if k == 0:
                R.extra["empty_block:" + sp.name] = R.extra.get("empty_block:" + sp.name, 0) + 1     # vacuity indicator, shown in the evidence counters
            if mon_err is not None and case is not None and _lib.S.v_check_guards():
                R.fail("memory-monitor", "after this block (last case shown): %s" % _lib.alloc_msg())
                _lib.S.v_reset_errors()
            ps = per_space.setdefault(sp.name, [0, 0])
            ps[0] += R.n - n0
            ps[1] += 1
            done_blocks += 1
            if time.time() - last_flush > 1.0:
                # partial results of COMPLETED blocks go to the parent now, so that a later crash of this worker loses nothing
                struct.pack_into("<qqq", bm, off, -2, -2, 0)
                conn.send(pickle.dumps({"n": R.n, "sigs": R.sigs, "fails": R.fails, "nfail": R.nfail, "samples": R.samples,
                                        "blocks": done_blocks, "per_space": per_space, "extra": R.extra, "partial": True}))
                R.n, R.sigs, R.fails, R.nfail, R.samples, R.extra = 0, set(), [], 0, [], {}
                done_blocks, per_space = 0, {}
                last_flush = time.time()
        struct.pack_into("<qqq", bm, off, -1, -1, 0)
        conn.send(pickle.dumps({"n": R.n, "sigs": R.sigs, "fails": R.fails, "nfail": R.nfail, "samples": R.samples,
                                "blocks": done_blocks, "per_space": per_space, "extra": R.extra}))
    except BaseException:
        conn.send(pickle.dumps({"error": traceback.format_exc()}))
    finally:
        conn.close()
        if os.environ.get("VERIF_COV"):
            import ctypes
            ctypes.CDLL(None).exit(0)          # run C-level destructors so that gcov counters are written


def _merge(res, d):
    if "error" in d:
        res["errors"].append(d["error"])
        return
    res["n"] += d["n"]
    res["sigs"] |= d["sigs"]
    res["fails"] += d["fails"]
    res["nfail"] += d["nfail"]
    res["samples"] += d["samples"]
    res["blocks"] += d["blocks"]
    for k, v in d["per_space"].items():
        ps = res["per_space"].setdefault(k, [0, 0])
        ps[0] += v[0]
        ps[1] += v[1]
    for k, v in d["extra"].items():
        res["extra"][k] = res["extra"].get(k, 0) + v


def run_spaces(spaces, deadline_s, slow=False, stall_s=600):
    """run every block of every space on NWORK forked workers. returns a result dict."""
    t0 = time.time()
    order = [(si, bi) for si, sp in enumerate(spaces) for bi in range(len(sp.blocks))]
    # interleave spaces so that a deadline cuts all of them evenly?  no: keep declared order (simplest first)
    nb = len(order)
    ctx = mp.get_context("fork")
    counter = ctx.Value("q", 0)
    beacon_path = "/dev/shm/verif-beacon-%d" % os.getpid()
    with open(beacon_path, "wb") as f:
        f.write(b"\0" * BEACON_SZ * NWORK)
    procs = []
    deadline = t0 + deadline_s
    for w in range(NWORK):
        pc, cc = ctx.Pipe(False)
        p = ctx.Process(target=_worker, args=(w, spaces, counter, nb, order, deadline, beacon_path, cc, slow))
        p.start()
        cc.close()
        procs.append((p, pc))
    res = {"n": 0, "sigs": set(), "fails": [], "nfail": 0, "samples": [], "blocks": 0, "per_space": {}, "extra": {},
           "crashes": [], "errors": []}
    bf = open(beacon_path, "r+b")
    bm = mmap.mmap(bf.fileno(), BEACON_SZ * NWORK)
    last_prog = [(None, time.time())] * NWORK
    alive = set(range(NWORK))
    got = set()
    while alive:
        for w in list(alive):
            p, pc = procs[w]
            while w not in got and pc.poll(0.002):
                try:
                    d = pickle.loads(pc.recv())
                except EOFError:
                    break
                _merge(res, d)
                if not d.get("partial"):
                    got.add(w)
            if not p.is_alive():
                p.join()
                alive.discard(w)
                if w not in got:
                    # drain late messages
                    while pc.poll(0.2):
                        try:
                            d = pickle.loads(pc.recv())
                        except EOFError:
                            break
                        _merge(res, d)
                        if not d.get("partial"):
                            got.add(w)
                    if w in got:
                        continue
                    si, bi, k, ln = struct.unpack_from("<qqqq", bm, w * BEACON_SZ)
                    if si < 0:
                        # died between blocks (after a flush / at the very end): nothing was in progress
                        res["errors"].append("worker %d exited (%r) outside a block" % (w, p.exitcode))
                        continue
                    case = bm[w * BEACON_SZ + 32:w * BEACON_SZ + 32 + ln].decode("latin1") if slow and 0 < ln < BEACON_SZ else None
                    res["crashes"].append({"worker": w, "exit": p.exitcode, "space_idx": si, "block_idx": bi, "k": k, "case": case})
                continue
            # stall detection
            cur = struct.unpack_from("<qqq", bm, w * BEACON_SZ)
            if cur != last_prog[w][0]:
                last_prog[w] = (cur, time.time())
            elif time.time() - last_prog[w][1] > stall_s and cur[0] >= 0:
                si, bi, k, ln = struct.unpack_from("<qqqq", bm, w * BEACON_SZ)
                case = bm[w * BEACON_SZ + 32:w * BEACON_SZ + 32 + ln].decode("latin1") if slow and 0 < ln < BEACON_SZ else None
                p.kill()
                p.join()
                alive.discard(w)
                res["crashes"].append({"worker": w, "exit": "stall>%ds" % stall_s, "space_idx": si, "block_idx": bi, "k": k, "case": case})
        time.sleep(0.01)
    bm.close()
    bf.close()
    os.unlink(beacon_path)
    res["total_blocks"] = nb
    res["exhaustive"] = (res["blocks"] == nb and not res["crashes"] and not res["errors"])
    res["wall_s"] = time.time() - t0
    return res


def parse_case(s):
    return ast.literal_eval(s)
