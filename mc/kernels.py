"""C14(1): every assembly kernel under mpn/x86_64/** assembled alone into its own shared object and compared, byte for byte
(destinations and return value), with the portable C implementation of the same routine (mpn/generic/<name>.c compiled alone)
or, for the routines that have no generic file, with a few-line Python definition."""
import os, subprocess, ctypes, hashlib, glob, shutil, json
from concurrent.futures import ThreadPoolExecutor
from ctypes import c_void_p, c_long, c_ulong, c_int, c_uint, c_uint64, addressof, memmove, string_at
from . import build, mpnops as mo, alphabet as al

B = 1 << 64
M = B - 1
G = 8


def ones(n):
    return (1 << (64 * n)) - 1


# ---------------------------------------------------------------- signatures
# ret: L limb, V void, i int
# params: O:<expr> output buffer, I:<expr> input buffer, X:<expr> in/out buffer, n / un / vn sizes, c shift count, l limb, lo odd limb, cy carry 0/1,
#         q qxn (0), K<k> constant
SIG = {}
for k in ("add_n", "sub_n", "addlsh1_n", "sublsh1_n", "rsh1add_n", "rsh1sub_n"):
    SIG[k] = "L O:n I:n I:n n"
for k in ("and_n", "andn_n", "nand_n", "ior_n", "iorn_n", "nior_n", "xor_n", "xnor_n"):
    SIG[k] = "V O:n I:n I:n n"
for k in ("com_n", "copyi", "copyd"):
    SIG[k] = "V O:n I:n n"
for k in ("lshift", "rshift", "lshiftc"):
    SIG[k] = "L O:n I:n n c"
for k in ("lshift1", "lshift2", "lshift3", "lshift4", "lshift5", "lshift6", "rshift1", "rshift2"):
    SIG[k] = "L O:n I:n n"
SIG.update({
    "double": "L X:n n", "half": "L X:n n", "not": "V X:n n", "store": "V O:n n l",
    "mul_1": "L O:n I:n n l", "addmul_1": "L X:n I:n n l", "submul_1": "L X:n I:n n l",
    "addlsh_n": "L O:n I:n I:n n c", "sublsh_n": "L O:n I:n I:n n c",
    "addadd_n": "L O:n I:n I:n I:n n", "addsub_n": "i O:n I:n I:n I:n n", "subadd_n": "L O:n I:n I:n I:n n",
    "sumdiff_n": "L O:n O:n I:n I:n n", "nsumdiff_n": "L O:n O:n I:n I:n n",
    "add_err1_n": "L O:n I:n I:n O:2 I:n n cy", "sub_err1_n": "L O:n I:n I:n O:2 I:n n cy",
    "add_err2_n": "L O:n I:n I:n O:4 I:n I:n n cy", "sub_err2_n": "L O:n I:n I:n O:4 I:n I:n n cy",
    "popcount": "L I:n n", "hamdist": "L I:n I:n n",
    "mul_basecase": "V O:un+vn I:un un I:vn vn", "sqr_basecase": "V O:2*n I:n n", "mullow_n_basecase": "V O:n I:n I:n n",
    "mulmid_basecase": "V O:un-vn+3 I:un un I:vn vn",
    "divexact_byff": "L O:n I:n n", "divexact_by3c": "L O:n I:n n c3",
    "divrem_hensel_qr_1_1": "L O:n I:n n lo", "divrem_hensel_qr_1_2": "L O:n I:n n lo", "divrem_hensel_r_1": "L I:n n lo",
    "modexact_1c_odd": "L I:n n lo l",
    "divrem_euclidean_qr_1": "L O:n K0 I:n n l1",
    "divrem_euclidean_qr_2": "L O:n X:n n N:2", "divrem_2": "L O:n+1 K0 X:n n N:2",
    "rsh_divrem_hensel_qr_1_1": "L O:n I:n n lo s K0", "rsh_divrem_hensel_qr_1_2": "L O:n I:n n lo s K0",
})
# where the generic C file is not a plain re-implementation, or does not exist: Python definitions  f(ins, scalars) -> (ret, [outs])
PYREF = {}


def _py(name):
    def deco(f):
        PYREF[name] = f
        return f
    return deco


for _k in range(1, 7):
    PYREF["lshift%d" % _k] = (lambda k: lambda bufs, sc: ((bufs[0] << k) >> (64 * sc["n"]), [(bufs[0] << k) & ones(sc["n"])]))(_k)
for _k in (1, 2):
    PYREF["rshift%d" % _k] = (lambda k: lambda bufs, sc: (((bufs[0] << 64) >> k) & M, [bufs[0] >> k]))(_k)
PYREF["lshiftc"] = lambda bufs, sc: ((bufs[0] << sc["c"]) >> (64 * sc["n"]), [~((bufs[0] << sc["c"])) & ones(sc["n"])])
PYREF["double"] = lambda bufs, sc: ((bufs[0] << 1) >> (64 * sc["n"]), [(bufs[0] << 1) & ones(sc["n"])])
PYREF["half"] = lambda bufs, sc: (((bufs[0] << 64) >> 1) & M, [bufs[0] >> 1])
PYREF["not"] = lambda bufs, sc: (None, [~bufs[0] & ones(sc["n"])])
PYREF["store"] = lambda bufs, sc: (None, [al.rep(sc["l"], sc["n"])])
PYREF["addlsh1_n"] = lambda bufs, sc: ((bufs[0] + 2 * bufs[1]) >> (64 * sc["n"]), [(bufs[0] + 2 * bufs[1]) & ones(sc["n"])])
PYREF["sublsh1_n"] = lambda bufs, sc: (-((bufs[0] - 2 * bufs[1]) >> (64 * sc["n"])), [(bufs[0] - 2 * bufs[1]) & ones(sc["n"])])
PYREF["addlsh_n"] = lambda bufs, sc: ((bufs[0] + (bufs[1] << sc["c"])) >> (64 * sc["n"]), [(bufs[0] + (bufs[1] << sc["c"])) & ones(sc["n"])])
PYREF["sublsh_n"] = lambda bufs, sc: (-((bufs[0] - (bufs[1] << sc["c"])) >> (64 * sc["n"])), [(bufs[0] - (bufs[1] << sc["c"])) & ones(sc["n"])])
PYREF["rsh1add_n"] = lambda bufs, sc: ((bufs[0] + bufs[1]) & 1, [((bufs[0] + bufs[1]) >> 1) & ones(sc["n"])])
PYREF["rsh1sub_n"] = lambda bufs, sc: ((bufs[0] - bufs[1]) & 1, [((bufs[0] - bufs[1]) >> 1) & ones(sc["n"])])


PYREF["mul_basecase"] = lambda bufs, sc: (None, [bufs[0] * bufs[1]])
PYREF["sqr_basecase"] = lambda bufs, sc: (None, [bufs[0] * bufs[0]])
PYREF["mullow_n_basecase"] = lambda bufs, sc: (None, [(bufs[0] * bufs[1]) & ones(sc["n"])])


def sqr_limit(repo, rel):
    """largest n a sqr_basecase kernel is ever called with: SQR_KARATSUBA_THRESHOLD of the nearest gmp-mparam.h"""
    import re
    d = os.path.dirname(os.path.join(repo, rel))
    while True:
        f = os.path.join(d, "gmp-mparam.h")
        if os.path.exists(f):
            m = re.search(r"#define\s+SQR_KARATSUBA_THRESHOLD\s+(\d+)", open(f).read())
            if m:
                return int(m.group(1))
        if os.path.basename(d) == "x86_64":
            return 20
        d = os.path.dirname(d)


def kernel_files(repo):
    out = []
    for root, dirs, files in os.walk(os.path.join(repo, "mpn", "x86_64")):
        dirs.sort()
        for f in sorted(files):
            if f.endswith(".asm") or f.endswith(".as"):
                name = f.rsplit(".", 1)[0]
                if name == "fat_entry":
                    continue
                out.append((os.path.relpath(os.path.join(root, f), repo), name))
    return out


def _assemble(args):
    repo, rel, name, work, outdir, inc = args
    src = os.path.join(repo, rel)
    tag = rel.replace("/", "_").replace(".", "_")
    so = os.path.join(outdir, tag + ".so")
    obj = os.path.join(work, tag + ".o")
    try:
        if rel.endswith(".asm"):
            kdir = os.path.join(work, "k")
            s = subprocess.run(["m4", "-DHAVE_CONFIG_H", "-D__GMP_WITHIN_GMP", "-DOPERATION_" + name, "-DPIC", src], cwd=kdir, capture_output=True)
            if s.returncode != 0:
                return rel, None, "m4: " + s.stderr.decode()[-300:]
            asm = os.path.join(work, tag + ".s")
            open(asm, "wb").write(s.stdout)
            r = subprocess.run(["gcc", "-c", "-o", obj, asm], capture_output=True)
        else:
            r = subprocess.run(["yasm", "-f", "elf64", "-D", "PIC", "-I", inc + "/", "-I", os.path.join(repo, "mpn", "x86_64") + "/", "-o", obj, src], capture_output=True)
        if r.returncode != 0:
            return rel, None, "assemble: " + r.stderr.decode()[-300:]
        r = subprocess.run(["gcc", "-shared", "-nostdlib", "-Wl,-z,noexecstack", "-Wl,--unresolved-symbols=ignore-all", "-o", so, obj], capture_output=True)
        if r.returncode != 0:
            return rel, None, "link: " + r.stderr.decode()[-300:]
        return rel, so, None
    except Exception as e:
        return rel, None, repr(e)


def _cref(args):
    repo, name, outdir, inc, libdir = args
    src = os.path.join(repo, "mpn", "generic", name + ".c")
    so = os.path.join(outdir, "ref_" + name + ".so")
    if not os.path.exists(src):
        return name, None, "no generic file"
    r = subprocess.run(["gcc", "-O1", "-shared", "-fPIC", "-DHAVE_CONFIG_H", "-D__GMP_WITHIN_GMP", "-DOPERATION_" + name, "-I", inc, "-I", repo, "-o", so, src,
                        os.path.join(libdir, "libmpir.so"), "-Wl,-rpath," + libdir], capture_output=True)
    if r.returncode != 0:
        return name, None, r.stderr.decode()[-400:]
    return name, so, None


def prepare(meta, repo=None):
    """assemble every kernel and compile every generic reference; cached next to the pin variant. returns dict"""
    repo = repo or build.REPO
    outdir = os.path.join(meta["dir"], "kernels")
    idx = os.path.join(outdir, "index.json")
    if os.path.exists(idx):
        return json.load(open(idx))
    tmp = outdir + ".%d.tmp" % os.getpid()
    os.makedirs(tmp, exist_ok=True)
    work = os.path.join(tmp, "work")
    os.makedirs(os.path.join(work, "k"), exist_ok=True)
    shutil.copy(os.path.join(meta["dir"], "config.m4"), os.path.join(work, "config.m4"))
    os.symlink(os.path.join(repo, "mpn"), os.path.join(work, "mpn"))
    files = kernel_files(repo)
    with ThreadPoolExecutor(16) as ex:
        res = list(ex.map(_assemble, [(repo, rel, name, work, tmp, meta["include"]) for rel, name in files]))
        names = sorted({n for _, n in files})
        refs = list(ex.map(_cref, [(repo, n, tmp, meta["include"], meta["dir"]) for n in names]))
    shutil.rmtree(work, ignore_errors=True)
    out = {"kernels": [], "refs": {}, "errors": []}
    for (rel, name), (r, so, err) in zip(files, res):
        if so:
            out["kernels"].append({"file": rel, "name": name, "so": os.path.join(outdir, os.path.basename(so))})
        else:
            out["errors"].append({"file": rel, "error": err})
    for n, so, err in refs:
        if so:
            out["refs"][n] = os.path.join(outdir, os.path.basename(so))
    json.dump(out, open(os.path.join(tmp, "index.json"), "w"), indent=1)
    if os.path.exists(outdir):
        shutil.rmtree(outdir)
    os.rename(tmp, outdir)
    return out


# ---------------------------------------------------------------- execution
_RET = {"L": c_uint64, "V": None, "i": c_int}


def parse_sig(sig):
    toks = sig.split()
    return toks[0], toks[1:]


def bind(handle, name, sig):
    ret, ps = parse_sig(sig)
    try:
        f = getattr(handle, "__gmpn_" + name)
    except AttributeError:
        f = getattr(handle, "mpn_" + name)         # a few files export the unmangled name
    f.restype = _RET[ret]
    at = []
    for p in ps:
        if p[0] in "OIXN" and ":" in p:
            at.append(c_void_p)
        elif p in ("n", "un", "vn") or p.startswith("K"):
            at.append(c_long)
        elif p in ("c", "s"):
            at.append(c_uint)
        else:
            at.append(c_uint64)
    f.argtypes = at
    return f


def sizes_for(name, N):
    """list of size dicts"""
    if name in ("mul_basecase", "mulmid_basecase"):
        out = []
        top = min(N, 24)
        for un in range(1, top + 1):
            for vn in range(1, un + 1):
                if name == "mulmid_basecase" and (vn < 1 or un < vn):
                    continue
                out.append({"un": un, "vn": vn, "n": un})
        return out
    lo = 1
    if name in ("divrem_hensel_qr_1_2", "divrem_2", "divrem_euclidean_qr_2", "rsh_divrem_hensel_qr_1_2"):
        lo = 2
    if name == "rsh_divrem_hensel_qr_1_2":
        lo = 3          # tune/tuneup.c: RSH_DIVREM_HENSEL_QR_1_THRESHOLD >= 3, so the _1_2 form never sees fewer limbs
    return [{"n": n} for n in range(lo, N + 1)]


def sizes_limited(name, N, limit):
    return [s for s in sizes_for(name, N) if s["n"] < limit]


def contents(n, k):
    """k-th content vector for an n-limb operand (index stable, cycles)"""
    fam = _fam(n)
    return fam[k % len(fam)]


_famc = {}


def _fam(n):
    v = _famc.get(n)
    if v is None:
        p = al.PAT(n)
        v = [p["ones"], p["dense"], p["0101"], 0, 1, p["bittop"], p["lowzero_ones"], p["ones-1"], al.rep(al.H, n), p["altlimb"], al.PAT(n, 7)["dense"], p["Bn-1_pow+1"] & ones(n)]
        if n <= 3:
            v = list(al.EXH(al.L3, n)) + v
        _famc[n] = v
    return v


SCALARS = {"s": [1, 7, 63], "c": [1, 2, 31, 32, 33, 62, 63], "l": [0, 1, 2, M, al.H, M - 1, 0x123456789ABCDEF1], "lo": [1, 3, M, al.H + 1, 0xAAAAAAAAAAAAAAAB, 0x123456789ABCDEF1], "cy": [0, 1],
           "c3": [0, 1, 2], "l1": [1, 2, 3, M, al.H, al.H + 1, 0x123456789ABCDEF1, 10]}


def cases_for(name, sig, N, limit=None):
    """(sizes, content-rotation k, scalar dict)"""
    ret, ps = parse_sig(sig)
    scal = [p for p in ps if p in SCALARS]
    nbuf_in = sum(1 for p in ps if p[0] in "IXN" and ":" in p)
    for sz in (sizes_for(name, N) if limit is None else sizes_limited(name, N, limit)):
        n = sz["n"]
        nc = len(_fam(n)) if n <= 3 else 12
        for k in range(nc):
            for k2 in (range(3) if nbuf_in >= 2 else range(1)):
                for combo in _scalar_combos(scal, k):
                    yield (sz, k, k2, combo)


def _scalar_combos(scal, k):
    if not scal:
        return [{}]
    import itertools
    doms = []
    for s in scal:
        d = SCALARS[s]
        if s in ("l", "lo", "l1") and len(scal) > 1:
            d = d[:3]
        doms.append(d)
    out = []
    for t in itertools.product(*doms):
        d = dict(zip(scal, t))
        if "lo" in d and "l" in d:
            d["l"] = d["l"] % d["lo"]          # modexact_1c_odd: the carry-in must be below the divisor
        if d not in out:
            out.append(d)
    # rotate long lists to keep the case count bounded: shift counts are all used, limb lists fully for single-scalar functions
    return out


def run_case(A, f, name, sig, sz, k, k2, sc, capture_inputs=False):
    """lay out buffers, call f, return (ret, [(kind, expr, value) for every buffer], intact) """
    ret, ps = parse_sig(sig)
    env = dict(sz)
    env.update(sc)
    off = G
    bufs = []
    args = []
    j = 0
    for p in ps:
        if p[0] in "OIXN" and ":" in p:
            ln = max(0, int(eval(p[2:], {}, env)))
            bufs.append([p[0], ln, off, None])
            args.append(None)
            off += ln + G
        elif p in ("n", "un", "vn"):
            args.append(env[p])
        elif p.startswith("K"):
            args.append(int(p[1:]))
        else:
            args.append(sc[p])
    end = off
    A.reset(end)
    ins = []
    for b in bufs:
        kind, ln, o, _ = b
        if kind in "IXN":
            v = contents(ln, k + j * (1 + k2) + (3 * j if k2 == 2 else 0)) if ln else 0
            if kind == "N":
                v |= 1 << (64 * ln - 1)          # normalised divisor
            if name in ("divexact_byff", "divexact_by3c") and False:
                pass
            j += 1
            b[3] = v
            A.put(o, v, ln) if ln else None
            ins.append(v)
    ai = 0
    cargs = []
    bi = 0
    for p in ps:
        if p[0] in "OIXN" and ":" in p:
            cargs.append(A.addr(bufs[bi][2]))
            bi += 1
        else:
            cargs.append(args[ai])
        ai += 1
    r = f(*cargs)
    outs = []
    for kind, ln, o, v in bufs:
        val = A.get(o, ln) if ln else 0
        if kind in "IN":
            if val != v:
                outs.append(("INPUT-MODIFIED", ln, val))
        else:
            outs.append((kind, ln, val))
    intact = A.untouched(end, [(o, ln) for kind, ln, o, v in bufs])
    return r, outs, intact, ins, env
