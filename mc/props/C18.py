"""C18  Formatted output/input follow C printf/scanf semantics extended to MPIR types."""
import ctypes, itertools
from fractions import Fraction
from ctypes import c_void_p, c_long, c_ulong, c_int, c_size_t, c_char_p, c_double, byref, addressof, string_at, create_string_buffer, POINTER
from .. import lib, alphabet as al
from ..explore import Space
from .C06 import to_str

ID = "C18"
LEVEL = "exploration"
RULE = ("bounded-exhaustive enumeration of format specifications: every subset of the flags {-,+,space,#,0} to which C gives a meaning for the "
        "conversion x width in {none,1,len-1,len,len+3,* >= 0,* < 0} x precision in {none,.0,.1,.len,.len+3,.*} x conversion {d,i,o,x,X} x type "
        "{Z (and M)} x values of every sign and digit count 1..19 fitting a long: byte identity and equal return value with the C library's "
        "snprintf for the equal long; larger values (to 200 digits), %Q and %N: C layout rules applied to the get_str digits; %F with "
        "e,f,g on short exactly representable values against the C library's double output; standard conversions mixed in; gmp_snprintf "
        "with EVERY buffer size 0..len+1 in a guard zone; gmp_asprintf block size; gmp_sprintf; gmp_sscanf reading back every produced "
        "string with the matching conversion, field counts and %n. distinct_nontrivial = distinct (format specification class, value "
        "class) tuples.")
RULE = RULE + (" " + "Later additions: %#Q; %Ff on large values against exact expansions; fields wider than 256 bytes through every entry point; every standard-run length 1..1152 through vasprintf/vsnprintf; obstack objects crossing chunk boundaries; gmp_sscanf against the C library's sscanf (count, stored values, %n) on prefixes and foreign characters; %Fg/%FG against libc; * width/precision incl. negative; %n family; hexadecimal floats by value; every length modifier of standard conversions around MPIR conversions.")
ASSUMPTIONS = ["the C library's snprintf on the same format with the l length modifier is the reference for values fitting a long; a Python "
               "transcription of C's integer layout rules (self-checked against libc in every run) for larger values",
               "combinations C leaves undefined (# with d/i, + or space with o/x/X, precision with %Q, bare '.') and inputs the output "
               "functions cannot produce are not generated"]
BUDGET = {"quick": 420, "thorough": 2400}
M, H = al.M, al.H
LMAX, LMIN = (1 << 63) - 1, -(1 << 63)


def passes(tier):
    return ["pin"] if tier == "quick" else ["pin", "asan"]


def c_layout(v, conv, flags, width, prec):
    """C99 integer conversion layout for a (possibly negative) value; o/x/X of negatives print '-' + magnitude (MPIR's signed extension)"""
    base = {"d": 10, "i": 10, "o": 8, "x": 16, "X": -16}[conv]
    digs = to_str(abs(v), base)
    if prec is not None and prec < 0:
        prec = None              # a negative precision argument is taken as if the precision were omitted
    if prec is not None:
        if v == 0 and prec == 0:
            digs = ""
        digs = digs.rjust(prec, "0")
    prefix = ""
    if "#" in flags:
        if conv in "xX" and v != 0:
            prefix = "0x" if conv == "x" else "0X"
        elif conv == "o" and not digs.startswith("0"):
            digs = "0" + digs
    sign = "-" if v < 0 else ("+" if "+" in flags else (" " if " " in flags else ""))
    body = sign + prefix + digs
    if width is not None and len(body) < width:
        if "-" in flags:
            body = body.ljust(width)
        elif "0" in flags and prec is None:
            body = sign + prefix + digs.rjust(width - len(sign) - len(prefix), "0")
        else:
            body = body.rjust(width)
    return body


def spaces(tier, variant, seed):
    P = c_void_p
    quick = tier == "quick"
    sp = []
    S = lib.S
    libc = ctypes.CDLL(None)
    c_snprintf = libc.snprintf
    c_snprintf.restype = c_int
    g_snprintf = lib.sym("gmp_snprintf")
    g_snprintf.restype = c_int
    g_sprintf = lib.sym("gmp_sprintf")
    g_sprintf.restype = c_int
    g_asprintf = lib.sym("gmp_asprintf")
    g_asprintf.restype = c_int
    g_sscanf = lib.sym("gmp_sscanf")
    g_sscanf.restype = c_int
    pool = {}

    def env():
        if not pool:
            pool["z"] = [lib.Z() for _ in range(3)]
            pool["q"] = [lib.Q() for _ in range(2)]
            pool["f"] = [lib.F(128), lib.F(128)]
            pool["buf"] = create_string_buffer(8192)
            pool["cbuf"] = create_string_buffer(8192)
        return pool

    def gfmt(R, fmt, args, tag):
        """run gmp_snprintf into a big guarded buffer; returns (ret, bytes)"""
        e = env()
        buf = e["buf"]
        ctypes.memset(buf, 0xEE, 4096)
        r = g_snprintf(c_void_p(addressof(buf) + 64), c_size_t(3900), fmt, *args)
        raw = buf.raw[:4096]
        out = raw[64:64 + 3900]
        nul = out.find(b"\0")
        if raw[:64] != b"\xee" * 64:
            R.fail("gmp_snprintf", "%s: wrote before the buffer" % tag)
        return r, (out[:nul] if nul >= 0 else None)

    FLAGSETS = []
    for k in range(6):
        for fs in itertools.combinations("-+ #0", k):
            FLAGSETS.append("".join(fs))

    def meaningful(conv, fs):
        if "#" in fs and conv in "di":
            return False
        if ("+" in fs or " " in fs) and conv in "oxX":
            return False
        return True

    LV = [0, 1, -1, 7, -8, 9, 10, -10, 255, -256, 4095, 65535, -65536, 123456789, -1234567890, (1 << 31) - 1, -(1 << 31), 1 << 32, -(1 << 32) - 1,
          10 ** 15, -(10 ** 15) - 7, LMAX, LMIN, LMIN + 1, LMAX - 1, 99, -100]
    if tier != "quick" and variant != "asan":
        # thorough: every power of two and of ten with its neighbours, both signs
        extra = set()
        for k in range(0, 64):
            for d in (-1, 0, 1):
                for sg_ in (1, -1):
                    v_ = sg_ * ((1 << k) + d)
                    if LMIN <= v_ <= LMAX:
                        extra.add(v_)
        for k in range(0, 19):
            for d in (-1, 0, 1):
                for sg_ in (1, -1):
                    extra.add(sg_ * (10 ** k + d))
        LV = LV + sorted(extra - set(LV))
    if variant == "asan":
        LV = LV[::3]

    def widths(n):
        if tier != "quick":
            return [None] + list(range(0, n + 6)) + [("*", n + 2), ("*", -(n + 2)), ("*", 0), 260, ("*", -300), 513]
        return [None, 1, max(n - 1, 0), n, n + 3, ("*", n + 2), ("*", -(n + 2)), 260, ("*", -300)]

    def precs(n):
        if tier != "quick":
            return [None] + list(range(0, n + 5)) + [("*", n + 1), ("*", -1), 300]
        return [None, 0, 1, n, n + 3, ("*", n + 1), ("*", -1)]

    def spec(fs, w, p, typ, conv):
        s = "%" + fs
        args = []
        if w is not None:
            if isinstance(w, tuple):
                s += "*"
                args.append(c_int(w[1]))
            else:
                s += str(w)
        if p is not None:
            if isinstance(p, tuple):
                s += ".*"
                args.append(c_int(p[1]))
            else:
                s += "." + str(p)
        return s + typ + conv, args

    def zi_cases(blk):
        conv, vi = blk
        v = LV[vi]
        if conv in "oxX" and v < 0:
            return
        n = len(to_str(abs(v), {"d": 10, "i": 10, "o": 8, "x": 16, "X": 16}[conv]))
        for fs in FLAGSETS:
            if not meaningful(conv, fs):
                continue
            for wi, w in enumerate(widths(n)):
                for pi, p in enumerate(precs(n)):
                    yield (conv, v, fs, wi, pi)

    def zi_one(case, R):
        conv, v, fs, wi, pi = case
        e = env()
        n = len(to_str(abs(v), {"d": 10, "i": 10, "o": 8, "x": 16, "X": 16}[conv]))
        w, p = widths(n)[wi], precs(n)[pi]
        z = e["z"][0]
        z.set(v)
        gf, gargs = spec(fs, w, p, "Z", conv)
        cf, cargs = spec(fs, w, p, "l", conv)
        r, out = gfmt(R, gf.encode(), gargs + [c_void_p(z.p)], gf)
        cb = e["cbuf"]
        cr = c_snprintf(cb, c_size_t(4000), cf.encode(), *(cargs + [c_long(v)]))
        cout = cb.value
        if out != cout or r != cr:
            R.fail("gmp_printf %Z", "format %r value %d: got %r (ret %d), C library prints %r (ret %d)" % (gf, v, out, r, cout, cr))
        # the Python layout model must agree with libc too (keeps the model honest for the large-value space)
        wv = w[1] if isinstance(w, tuple) else w
        fl = fs
        if wv is not None and wv < 0:
            fl, wv = fs + "-", -wv
        pv = p[1] if isinstance(p, tuple) else p
        model = c_layout(v, conv, fl, wv, pv)
        if model.encode() != cout:
            R.fail("oracle-selfcheck", "layout model %r differs from libc %r for %r" % (model, cout, cf))
        # %M (mp_limb_t) with unsigned / signed conversions
        if 0 <= v and conv in "oxX":
            mf, margs = spec(fs, w, p, "M", conv)
            r2, out2 = gfmt(R, mf.encode(), margs + [c_ulong(v)], mf)
            if out2 != cout or r2 != cr:
                R.fail("gmp_printf %M", "format %r value %d: got %r, C library prints %r" % (mf, v, out2, cout))
        elif conv in "di":
            mf, margs = spec(fs, w, p, "M", conv)
            r2, out2 = gfmt(R, mf.encode(), margs + [c_long(v)], mf)
            if out2 != cout or r2 != cr:
                R.fail("gmp_printf %M", "format %r value %d: got %r, C library prints %r" % (mf, v, out2, cout))
        if z.get() != v:
            R.fail("gmp_printf", "operand modified")
        return (conv, fs, wi, pi, al.sgn(v), n == 1)

    sp.append(Space("Z_vs_libc", [(c, vi) for c in "dioxX" for vi in range(len(LV))], zi_cases, zi_one,
                    "%Z{d,i,o,x,X} (and %M): every meaningful flag subset x 9 widths (incl. 260 and * = -300) x 7 precisions (incl. * = -1) x values fitting a long: byte identical to libc snprintf with %l"))

    BIG = [1 << 64, -(1 << 64), 10 ** 30 + 7, -(10 ** 30) - 7, (1 << 200) - 1, -(1 << 200), 10 ** 199, al.PAT(3)["dense"], -al.PAT(5)["dense"], M, -M - 1]

    def zb_cases(blk):
        conv, vi = blk
        v = BIG[vi]
        n = len(to_str(abs(v), {"d": 10, "i": 10, "o": 8, "x": 16, "X": 16}[conv]))
        for fs in FLAGSETS:
            if "#" in fs and conv in "di":
                continue
            if ("+" in fs or " " in fs) and conv in "oxX" and False:
                continue
            for wi in range(7):
                for pi in range(6):
                    yield (conv, vi, fs, wi, pi)

    def zb_one(case, R):
        conv, vi, fs, wi, pi = case
        e = env()
        v = BIG[vi]
        n = len(to_str(abs(v), {"d": 10, "i": 10, "o": 8, "x": 16, "X": 16}[conv]))
        w, p = widths(n)[wi], precs(n)[pi]
        if conv in "oxX" and ("+" in fs or " " in fs):
            return None
        z = e["z"][0]
        z.set(v)
        gf, gargs = spec(fs, w, p, "Z", conv)
        r, out = gfmt(R, gf.encode(), gargs + [c_void_p(z.p)], gf)
        wv = w[1] if isinstance(w, tuple) else w
        fl = fs
        if wv is not None and wv < 0:
            fl, wv = fs + "-", -wv
        pv = p[1] if isinstance(p, tuple) else p
        model = c_layout(v, conv, fl, wv, pv).encode()
        if out != model or r != len(model):
            R.fail("gmp_printf %Z", "format %r value %x: got %r (ret %d), C layout rules give %r" % (gf, v, out[:80] if out else out, r, model[:80]))
        # N: the same value as a limb array (negative size for negative values)
        nl_ = al.nl(abs(v))
        arr = (ctypes.c_uint64 * max(nl_, 1))(*[(abs(v) >> (64 * i)) & M for i in range(nl_)])
        nf, nargs = spec(fs, w, p, "N", conv)
        r2, out2 = gfmt(R, nf.encode(), nargs + [arr, c_long(-nl_ if v < 0 else nl_)], nf)
        if out2 != model or r2 != len(model):
            R.fail("gmp_printf %N", "format %r value %x: got %r, expected %r" % (nf, v, out2[:80] if out2 else out2, model[:80]))
        return (conv, fs, wi, pi, al.sgn(v))

    sp.append(Space("Z_N_large", [(c, vi) for c in "dioxX" for vi in range(len(BIG))], zb_cases, zb_one,
                    "%Z and %N on values beyond long (to 200 digits), negative values with o/x/X (signed extension): C layout rules on the get_str digits"))

    QV = [Fraction(0), Fraction(1), Fraction(-1), Fraction(1, 2), Fraction(-22, 7), Fraction(255, 256), Fraction(-(1 << 64) - 1, 10 ** 20 + 1), Fraction(10 ** 30, 3), Fraction(-5),
          Fraction(-7, (1 << 64) + 1), Fraction(5, (3 << 64) + 1), Fraction(1, (1 << 128) + 1), Fraction(3, (1 << 64) + 2), Fraction(-9, 1 << 64)]      # multi-limb denominators, low limb 1 / 2 / 0

    def q_cases(blk):
        conv = blk
        for qi in range(len(QV)):
            for fs in ("", "-", "+", " ", "+-", "- ", "#", "#-", "#+"):
                if ("+" in fs or " " in fs) and conv in "oxX":
                    continue
                if "#" in fs and conv in "di":
                    continue
                for wi in range(7):
                    yield (conv, qi, fs, wi)

    def q_one(case, R):
        conv, qi, fs, wi = case
        e = env()
        qv = QV[qi]
        q = e["q"][0]
        q.set(qv.numerator, qv.denominator)
        base = {"d": 10, "i": 10, "o": 8, "x": 16, "X": -16}[conv]
        pre = ""
        if "#" in fs:
            # the manual's own example is "%#40Qx": the base prefix goes on the numerator and on the denominator (none on a zero)
            pre = {"x": "0x", "X": "0X", "o": "0"}[conv]
        body = (pre if qv.numerator else "") + to_str(abs(qv.numerator), base) + ("" if qv.denominator == 1 else "/" + pre + to_str(qv.denominator, base))
        n = len(body)
        w = widths(n)[wi]
        gf, gargs = spec(fs, w, None, "Q", conv)
        r, out = gfmt(R, gf.encode(), gargs + [c_void_p(q.p)], gf)
        wv = w[1] if isinstance(w, tuple) else w
        fl = fs
        if wv is not None and wv < 0:
            fl, wv = fs + "-", -wv
        sign = "-" if qv < 0 else ("+" if "+" in fl else (" " if " " in fl else ""))
        s = sign + body
        if wv is not None and len(s) < wv:
            s = s.ljust(wv) if "-" in fl else s.rjust(wv)
        if out != s.encode() or r != len(s):
            R.fail("gmp_printf %Q", "format %r value %s: got %r (ret %d) expected %r" % (gf, qv, out, r, s))
        return (conv, fs, wi, al.sgn(qv), qv.denominator == 1)

    sp.append(Space("Q_layout", list("dioxX"), q_cases, q_one, "%Q{d,i,o,x,X}: num[/den] digits with sign, # (prefix on numerator and denominator, as in the manual's %#40Qx example) and width/justification flags (no precision, no 0 flag: undefined for Q)"))

    # ---- %F against libc double output on short exactly representable values ----
    FV = [0.0, 1.0, -1.0, 1.5, -0.25, 0.125, 1024.0, -1e10, 123456.0, 0.5, 3.0, 1e15, -7.75, 65536.0, 0.0625]

    if tier != "quick":
        FV = FV + [2.0 ** k for k in range(-12, 40, 3)] + [-(2.0 ** k) for k in (-5, 0, 7, 33)] + [10.0 ** k for k in range(0, 16)] + [0.75, 2.5, -99.5, 1e5 + 0.5, 123.456e3, 9.5, 99.5, 0.09375]

    def f_cases(blk):
        conv = blk
        fss = FLAGSETS if tier != "quick" else ("", "-", "+", " ", "0", "+0", "-+", "#", "#0", "- ", "+ 0", "-0")
        ws = (None, 4, 12, 20, ("*", 9), ("*", -9)) if tier == "quick" else (None, 0, 1, 4, 7, 12, 20, 40, 300, ("*", 9), ("*", -9), ("*", 0))
        ps = (None, 0, 1, 3, 6, 10, ("*", 2), ("*", -1)) if tier == "quick" else (None, 0, 1, 2, 3, 4, 6, 10, 17, 30, ("*", 2), ("*", -1), ("*", 0))
        for vi in range(len(FV)):
            for fs in fss:
                for w in ws:
                    for p in ps:
                        yield (conv, vi, fs, w, p)

    def exact_shown(v, conv, p):
        """true when libc's output shows the value exactly (no rounding rule is involved)"""
        fr = Fraction(v)
        if isinstance(p, tuple):
            p = p[1] if p[1] >= 0 else None
        pp = 6 if p is None else p
        if conv in "gG":
            # %g shows max(P,1) significant digits: exact when the value has no more than that many
            if fr == 0:
                return True
            P_ = max(pp, 1)
            import math
            ex = math.floor(math.log10(abs(fr)))
            if Fraction(10) ** ex > abs(fr):
                ex -= 1
            if Fraction(10) ** (ex + 1) <= abs(fr):
                ex += 1
            return (abs(fr) / Fraction(10) ** ex * 10 ** (P_ - 1)).denominator == 1
        if conv == "f":
            return (fr * 10 ** pp).denominator == 1
        if conv in "eE":
            if fr == 0:
                return True
            import math
            ex = math.floor(math.log10(abs(fr)))
            m = abs(fr) / Fraction(10) ** ex
            if m >= 10:
                m /= 10
            if m < 1:
                m *= 10
            return (m * 10 ** pp).denominator == 1
        return False

    def f_one(case, R):
        conv, vi, fs, w, p = case
        e = env()
        v = FV[vi]
        if not exact_shown(v, conv, p):
            return None
        f = e["f"][0]
        f.set_frac(Fraction(v))
        gf, gargs = spec(fs, w, p, "F", conv)
        cf, cargs = spec(fs, w, p, "", conv)
        r, out = gfmt(R, gf.encode(), gargs + [c_void_p(f.p)], gf)
        cb = e["cbuf"]
        cr = c_snprintf(cb, c_size_t(4000), cf.encode(), *(cargs + [c_double(v)]))
        if out != cb.value or r != cr:
            R.fail("gmp_printf %F", "format %r value %r: got %r (ret %d), C library prints %r (ret %d)" % (gf, v, out, r, cb.value, cr))
        return (conv, fs, w, p, al.sgn(v), v == int(v))

    sp.append(Space("F_vs_libc", list("feEgG"), f_cases, f_one, "%F{f,e,E,g,G} with flags/width/precision (also through * with negative arguments) on values whose expansion is exact at the requested precision: byte identical to libc's double output"))

    # ---- %Ff / %Fe of large exactly representable values: every digit is determined ----
    def fb_cases(blk):
        kk = blk
        for vkind in range(4):
            for fs in ("", "-", "+"):
                for p in (None, 0, 3, "dot"):
                    for w in (None, 600):
                        yield (kk, vkind, fs, p, w)

    def fb_one(case, R):
        kk, vkind, fs, p, w = case
        e = env()
        if "bigf" not in e:
            e["bigf"] = lib.F(64 * 40)
        f = e["bigf"]
        v = [(1 << (64 * kk)) - 1, (1 << (64 * kk - 1)) + 12345, 10 ** (19 * kk) - 1, ((1 << (64 * kk)) - 1) * 5 ** 6][vkind]
        val = Fraction(v, 1000000) if vkind == 3 else Fraction(v)
        if vkind == 3:
            val = Fraction(((1 << (64 * kk)) - 1) * 5 ** 6, 10 ** 6)       # = (2^(64k)-1)/2^6 : six exact decimals
        f.set_frac(-val if "-" in fs and False else val)
        prec = 6 if p is None else p
        spec_ = "%" + fs + ("" if w is None else str(w)) + ("" if p is None else ("." if p == "dot" else ".%d" % p)) + "Ff"
        r, out = gfmt(R, spec_.encode(), [c_void_p(f.p)], spec_)
        if out is None:
            return None
        ip = val.numerator // val.denominator
        frac = val - ip
        if p == "dot":
            # "%.Ff": just the significant digits
            fd = ""
            t = frac
            while t:
                t *= 10
                fd += str(t.numerator // t.denominator)
                t -= t.numerator // t.denominator
            body = str(ip) + ("." + fd if fd else "")
        else:
            scaled = frac * 10 ** prec
            if scaled.denominator != 1:
                return None             # would need a rounding rule
            body = str(ip) + ("." + str(scaled.numerator).rjust(prec, "0") if prec else "")
        body = ("+" if "+" in fs else "") + body
        if w is not None and len(body) < w:
            body = body.ljust(w) if "-" in fs else body.rjust(w)
        if out != body.encode() or r != len(body):
            x = out.decode("latin1")
            d = next((i for i in range(min(len(x), len(body))) if x[i] != body[i]), min(len(x), len(body)))
            R.fail("gmp_printf %F", "format %r of a %d-digit value: output differs from the exact expansion at character %d of %d (got ...%r, expected ...%r)" % (spec_, len(str(ip)), d, len(body), x[max(0, d - 8):d + 12], body[max(0, d - 8):d + 12]))
        return ("bigF", kk, vkind, fs, p, w is None)

    sp.append(Space("F_large_exact", list(range(1, 25)), fb_cases, fb_one,
                    "%Ff (default, .0, .3, bare '.') of 2^(64k)-1, 2^(64k-1)+12345, 10^(19k)-1 and (2^(64k)-1)/64 for k=1..24 held exactly in a 2560-bit mpf: every digit against the exact decimal expansion"))

    # ---- mixed standard conversions, snprintf sizes, asprintf, sprintf ----
    MIX = [(b"%d|%Zd|%s", "izs"), (b"%s %Zx %c %5.2f %%", "szcd"), (b"<%ld %Qd %lu>", "lqu"), (b"%Zd%Zd%Zd", "zzz"), (b"%-6d|%+Zd|%#x|%#Zx", "izuz"),
           (b"%c%c%Zo%c", "cczc"), (b"plain text only", ""), (b"%5.1f %Ff %e", "dfd"), (b"%hd %hhd %Zd %lld", "hHzL"),
           # every length modifier of a standard conversion in front of / between / behind MPIR conversions: an argument of the wrong
           # width skipped anywhere shifts every later argument
           (b"%jd|%Zd|%zu|%Zx|%td", "JzSzT"), (b"%lld %Zd %llu %Qd %ld", "LzUql"), (b"%Zd %g %Zd %G %Zd", "zdzdz"), (b"%zd%Zd%jd%Zd%td%Zd", "SzJzTz"),
           (b"%hhd %hd %d %ld %lld %Zd", "HhilLz"), (b"%Zd %x %lo %llX %Zd", "ziuUz"), (b"%5s|%-8.3s|%Zd|%c", "sszc"), (b"%e|%Fe|%a|%Zd", "dfdz")]

    def mx_cases(blk):
        i = blk
        for vi in range(len(LV)):
            yield (i, vi)

    def mx_one(case, R):
        i, vi = case
        e = env()
        fmt, kinds = MIX[i]
        v = LV[vi]
        z = e["z"][0]
        z.set(v)
        q = e["q"][0]
        qv = Fraction(v, 7)
        q.set(qv.numerator, qv.denominator)
        f = e["f"][0]
        f.set_frac(Fraction(v % 1000) / 8)
        gargs, cparts = [], []
        # expected string assembled from libc pieces and our own rendering of the MPIR conversions
        import re
        toks = re.findall(rb"%[-+ #0]*\d*(?:\.\d+)?(?:hh|h|ll|l|j|z|t|Z|Q|F)?[a-zA-Z%]|[^%]+", fmt)
        exp = b""
        ki = 0
        cb = e["cbuf"]
        for t in toks:
            if not t.startswith(b"%"):
                exp += t
                continue
            if t == b"%%":
                exp += b"%"
                continue
            k = kinds[ki]
            ki += 1
            if k == "z":
                gargs.append(c_void_p(z.p))
                conv = chr(t[-1])
                fs = re.match(rb"%([-+ #0]*)", t).group(1).decode()
                exp += c_layout(v, conv, fs, None, None).encode()
            elif k == "q":
                gargs.append(c_void_p(q.p))
                exp += (to_str(qv.numerator, 10) + ("" if qv.denominator == 1 else "/" + to_str(qv.denominator, 10))).encode()
            elif k == "f":
                gargs.append(c_void_p(f.p))
                c_snprintf(cb, c_size_t(4000), b"%" + t[-1:], c_double(float(Fraction(v % 1000) / 8)))
                exp += cb.value
            else:
                a = {"i": c_int(v & 0x7FFFFFFF), "s": c_char_p(b"str\xc3\xa9"), "c": c_int(65 + (v % 26)), "d": c_double((v % 4096) / 16.0), "l": c_long(v),
                     "u": c_ulong(v & M), "h": c_int((v & 0x7FFF)), "H": c_int(v & 0x7F), "L": ctypes.c_longlong(v),
                     "J": ctypes.c_longlong(-v), "S": ctypes.c_size_t(v & M), "T": ctypes.c_ssize_t(v), "U": ctypes.c_ulonglong((v * 3) & M)}[k]
                gargs.append(a)
                c_snprintf(cb, c_size_t(4000), t, a)
                exp += cb.value
        r, out = gfmt(R, fmt, gargs, fmt)
        if out != exp or r != len(exp):
            R.fail("gmp_printf mixed", "format %r value %d: got %r (ret %d) expected %r" % (fmt, v, out, r, exp))
        full = exp
        # gmp_snprintf with EVERY buffer size 0..len+1
        buf = e["buf"]
        for size in range(0, len(full) + 2):
            ctypes.memset(buf, 0xEE, len(full) + 200)
            r = g_snprintf(c_void_p(addressof(buf) + 64), c_size_t(size), fmt, *gargs)
            raw = buf.raw[:len(full) + 200]
            if r != len(full):
                R.fail("gmp_snprintf", "format %r size %d: returned %d, full length is %d" % (fmt, size, r, len(full)))
            want = b"" if size == 0 else full[:size - 1] + b"\0"
            if raw[64:64 + len(want)] != want:
                R.fail("gmp_snprintf", "format %r size %d: buffer holds %r expected %r" % (fmt, size, raw[64:64 + len(want)], want))
            if raw[:64] != b"\xee" * 64 or raw[64 + len(want):64 + len(want) + 64] != b"\xee" * 64:
                R.fail("gmp_snprintf", "format %r size %d: wrote more than size bytes" % (fmt, size))
        # gmp_sprintf
        ctypes.memset(buf, 0xEE, len(full) + 200)
        r = g_sprintf(c_void_p(addressof(buf) + 64), fmt, *gargs)
        raw = buf.raw[:len(full) + 200]
        if r != len(full) or raw[64:64 + len(full) + 1] != full + b"\0" or raw[64 + len(full) + 1:64 + len(full) + 33] != b"\xee" * 32:
            R.fail("gmp_sprintf", "format %r: returned %d, wrote %r" % (fmt, r, raw[64:64 + len(full) + 1]))
        # gmp_asprintf: block of exactly length+1 bytes from the installed allocator
        pp = c_void_p(0)
        r = g_asprintf(byref(pp), fmt, *gargs)
        if r != len(full) or not pp.value:
            R.fail("gmp_asprintf", "format %r: returned %d" % (fmt, r))
        else:
            st = string_at(pp.value)
            bs = S.v_block_size(pp.value)
            if st != full:
                R.fail("gmp_asprintf", "format %r: string %r expected %r" % (fmt, st, full))
            if bs != len(full) + 1:
                R.fail("gmp_asprintf", "format %r: block of %d bytes for a string of length %d" % (fmt, bs, len(full)))
            S.v_free(pp.value, bs if bs != (1 << 64) - 1 else len(full) + 1)
        if lib.alloc_errors():
            R.fail("gmp_printf", "allocator contract: " + lib.alloc_msg())
            S.v_reset_errors()
        return ("mix", i, al.sgn(v), len(full) // 8)

    sp.append(Space("mixed_snprintf_asprintf", list(range(len(MIX))), mx_cases, mx_one,
                    "standard conversions mixed with MPIR ones (libc renders the standard pieces); gmp_snprintf for EVERY size 0..len+1 in a guard zone; gmp_sprintf; gmp_asprintf block == length+1"))

    # ---- every other entry point of the family must produce what gmp_snprintf produces ----
    g_fprintf = lib.sym("gmp_fprintf")
    g_fprintf.restype = c_int
    g_fscanf_direct = lib.sym("gmp_fscanf")
    g_fscanf_direct.restype = c_int
    for nm in ("v_vsnprintf", "v_vsprintf", "v_vasprintf", "v_vfprintf", "v_vsscanf", "v_fscanf", "v_obstack_printf", "v_printf_capture"):
        getattr(S, nm).restype = c_int
    vs_pool = {}

    def vstream():
        if "vs" not in vs_pool:
            vs_pool["vs"] = S.v_stream_new()
        return vs_pool["vs"]

    VFMT = [(b"%Zd", "z"), (b"%#Zx|%Qd", "zq"), (b"%20Zd|%-20Zd|%+.30Zd", "zzz"), (b"%d %Zo %s", "izs"), (b"%.3Ff|%Fe", "ff"), (b"%Nd", "n"), (b"%Mx %Md", "mM"),
            # fields wider than the 256-byte chunks the FILE back end writes fill characters in
            (b"%261Zd", "z"), (b"%300Zd|%-257Zd|%0513Zd", "zzz"), (b"%.300Zd|%#600Zx", "zz"), (b"%-1000Qd|%255Zd|%256Zd", "qzz"),
            (b"%*Zd|%-*Zd", "IzIz"), (b"%400.3Ff|%-300Fe|%0290Ff", "fff"), (b"%.270Nd", "n"), (b"%512Md|%-258Mx", "Mm")]

    def vf_cases(blk):
        i = blk
        for vi in range(len(SVV)):
            yield (i, vi)

    SVV = LV + [1 << 64, -(1 << 64), 10 ** 30 + 7, -(10 ** 40), al.PAT(5)["dense"]]

    def vf_one(case, R):
        i, vi = case
        e = env()
        fmt, kinds = VFMT[i]
        v = SVV[vi]
        z = e["z"][0]
        z.set(v)
        q = e["q"][0]
        qv = Fraction(v, 3 + (abs(v) % 5))
        q.set(qv.numerator, qv.denominator)
        f = e["f"][0]
        f.set_frac(Fraction(v % 4096) / 16)
        nl_ = al.nl(abs(v))
        arr = (ctypes.c_uint64 * max(nl_, 1))(*[(abs(v) >> (64 * k)) & M for k in range(nl_)])
        args = []
        for kch in kinds:
            if kch == "z":
                args.append(c_void_p(z.p))
            elif kch == "q":
                args.append(c_void_p(q.p))
            elif kch == "f":
                args.append(c_void_p(f.p))
            elif kch == "i":
                args.append(c_int(v & 0xFFFF))
            elif kch == "I":
                args.append(c_int(257 + (v & 0x1FF)))
            elif kch == "s":
                args.append(c_char_p(b"tail"))
            elif kch == "n":
                args += [arr, c_long(-nl_ if v < 0 else nl_)]
            elif kch == "m":
                args.append(c_ulong(v & M))
            elif kch == "M":
                args.append(c_long(lib.c_long_wrap(v)))
        r0, ref = gfmt(R, fmt, args, fmt)
        if ref is None:
            return None
        buf = e["buf"]
        L = len(ref)

        def expect(name, r, got):
            if r != L or got != ref:
                R.fail(name, "format %r value %x: returned %d, produced %r; gmp_snprintf gives %d, %r" % (fmt, v, r, got[:80] if got is not None else None, L, ref[:80]))
        ctypes.memset(buf, 0xEE, L + 100)
        r = S.v_vsnprintf(c_void_p(addressof(buf)), c_size_t(L + 50), fmt, *args)
        expect("gmp_vsnprintf", r, buf.raw[:L])
        ctypes.memset(buf, 0xEE, L + 100)
        r = S.v_vsprintf(c_void_p(addressof(buf)), fmt, *args)
        expect("gmp_vsprintf", r, buf.raw[:L])
        if buf.raw[L:L + 1] != b"\0" or buf.raw[L + 1:L + 9] != b"\xee" * 8:
            R.fail("gmp_vsprintf", "format %r: terminator missing or wrote beyond it" % fmt)
        pp = c_void_p(0)
        r = S.v_vasprintf(byref(pp), fmt, *args)
        got = string_at(pp.value) if pp.value else None
        expect("gmp_vasprintf", r, got)
        if pp.value:
            bs = S.v_block_size(pp.value)
            if bs != L + 1:
                R.fail("gmp_vasprintf", "format %r: block of %d bytes for a string of length %d" % (fmt, bs, L))
            S.v_free(pp.value, bs if bs != (1 << 64) - 1 else L + 1)
        vs = vstream()
        for nm, fn_ in (("gmp_vfprintf", S.v_vfprintf), ("gmp_fprintf", g_fprintf)):
            fp = S.v_open_write(vs, -1, 1)          # buffered stream, flushed by fclose
            r = fn_(c_void_p(fp), fmt, *args)
            S.v_fclose(fp)
            n_ = S.v_stream_len(vs)
            got = string_at(S.v_stream_data(vs), n_) if n_ else b""
            expect(nm, r, got)
        ctypes.memset(buf, 0, L + 100)
        r = S.v_obstack_printf(c_void_p(addressof(buf)), c_size_t(L + 50), 0, fmt, *args)
        if r != L or buf.raw[:L + 4] != b"pre:" + ref:
            R.fail("gmp_obstack_vprintf", "format %r: returned %d, obstack holds %r; expected the prefix grown by %r" % (fmt, r, buf.raw[:L + 4][:80], ref[:60]))
        ctypes.memset(buf, 0, L + 100)
        r = S.v_printf_capture(c_void_p(addressof(buf)), c_size_t(L + 50), fmt, *args)
        expect("gmp_vprintf", r, buf.raw[:L])
        # scanf family reading back the first field
        if kinds[0] == "z" and fmt in (b"%Zd",):
            z2, z3 = e["z"][1], e["z"][2]
            for nm in ("gmp_vsscanf", "gmp_vfscanf", "gmp_fscanf"):
                z2.set(77)
                if nm == "gmp_vsscanf":
                    n = S.v_vsscanf(ref + b" rest", b"%Zd", c_void_p(z2.p))
                else:
                    data = ref + b" rest"
                    fp = S.v_open_read(vs, data, len(data), -1, 0, 0, 0)
                    n = (S.v_fscanf if nm == "gmp_vfscanf" else g_fscanf_direct)(c_void_p(fp), b"%Zd", c_void_p(z2.p))
                    nxt = S.v_getc(fp)
                    S.v_fclose(fp)
                    if nxt != 32:
                        R.fail(nm, "did not stop right after the number (next char %d)" % nxt)
                if n != 1 or z2.get() != v:
                    R.fail(nm, "reading %r: assigned %d, value %x" % (ref[:40], n, z2.get()))
        if lib.alloc_errors():
            R.fail("gmp_printf family", "allocator contract: " + lib.alloc_msg())
            S.v_reset_errors()
        return ("vfam", i, al.sgn(v), L // 8)

    sp.append(Space("entry_point_variants", list(range(len(VFMT))), vf_cases, vf_one,
                    "gmp_vsnprintf, vsprintf, vasprintf, vfprintf, fprintf, obstack_vprintf, vprintf (stdout captured) must produce exactly what gmp_snprintf produces for the same format and arguments; gmp_vsscanf, vfscanf, fscanf read it back"))

    # ---- %n in every type variant: the count of characters produced so far goes to an int, short, char, long, long long, size_t, ptrdiff_t,
    #      intmax_t, or to an mpz / mpq / mpf / limb vector ----
    def nn_cases(blk):
        vi = blk
        yield (vi,)

    def nn_one(case, R):
        (vi,) = case
        e = env()
        v = (LV + BIG)[vi]
        z = e["z"][0]
        z.set(v)
        pre = str(v).encode()
        L1 = len(pre) + 1
        i_, h_, H_, l_, L_, S_, T_, J_ = c_int(-1), ctypes.c_short(-1), ctypes.c_byte(-1), c_long(-1), ctypes.c_longlong(-1), ctypes.c_size_t(7), ctypes.c_ssize_t(-1), ctypes.c_longlong(-1)
        zn, qn, fn_ = e["z"][1], e["q"][0], e["f"][0]
        zn.set(-5)
        qn.set(5, 3)
        fn_.set_frac(Fraction(5, 4))
        arr = (ctypes.c_uint64 * 3)(7, 7, 7)
        buf = e["buf"]
        fmt = b"%Zd|%n%hn%hhn%ln%lln%zn%tn%jn%Zn%Qn%Fn%Nn<%d>%n"
        end = c_int(-1)
        r = g_snprintf(c_void_p(addressof(buf)), c_size_t(4000), fmt, c_void_p(z.p), byref(i_), byref(h_), byref(H_), byref(l_), byref(L_), byref(S_), byref(T_), byref(J_),
                       c_void_p(zn.p), c_void_p(qn.p), c_void_p(fn_.p), arr, c_long(3), c_int(42), byref(end))
        exp = pre + b"|<42>"
        got = buf.value
        vals = {"%n": i_.value, "%hn": h_.value, "%hhn": H_.value & 0xFF, "%ln": l_.value, "%lln": L_.value, "%zn": S_.value, "%tn": T_.value, "%jn": J_.value,
                "%Zn": zn.get(), "%Qn": qn.get() if hasattr(qn, "get") else None, "%Fn": fn_.get(), "%Nn": arr[0]}
        if got != exp or r != len(exp):
            R.fail("gmp_snprintf %n", "value %d: output %r (ret %d), expected %r" % (v, got[:60], r, exp[:60]))
        for k_, val in vals.items():
            want = L1 if k_ != "%hhn" else (L1 & 0xFF)
            if val is not None and val != want:
                R.fail("gmp_snprintf %n", "value %d: %s stored %s, %d characters had been produced" % (v, k_, val, L1))
        if arr[1] != 0 or arr[2] != 0:
            R.fail("gmp_snprintf %n", "%%Nn must zero the higher limbs: %s" % list(arr))
        if end.value != len(exp):
            R.fail("gmp_snprintf %n", "final %%n stored %d, length is %d" % (end.value, len(exp)))
        if zn.wf() or fn_.wf():
            R.fail("gmp_snprintf %n", "%%Zn/%%Fn left an ill-formed object")
        return ("n", al.sgn(v), len(pre) > 100)

    sp.append(Space("percent_n_family", list(range(len(LV) + len(BIG))), nn_cases, nn_one,
                    "%n, %hn, %hhn, %ln, %lln, %zn, %tn, %jn, %Zn, %Qn, %Fn, %Nn after an MPIR conversion and a final %n: each receives the number of characters produced so far"))

    # ---- hexadecimal floats: %Fa / %FA print the value exactly (the normalisation of the leading digit is MPIR's own, so the text is parsed
    #      back and compared by value), with and without a precision that holds every digit; gmp_sscanf reads it back ----
    FAV = [Fraction(1), Fraction(3, 2), Fraction(-5, 8), Fraction(255), Fraction(1, 1 << 20), Fraction((1 << 70) + 1), Fraction(-(1 << 64) - 3, 1 << 10), Fraction(0xABCDEF, 1 << 12), Fraction(0)]

    def fa_cases(blk):
        conv = blk
        for vi in range(len(FAV)):
            for fs in ("", "+", "-", "0", "#"):
                for w in (None, 30):
                    yield (conv, vi, fs, w)

    def fa_one(case, R):
        conv, vi, fs, w = case
        e = env()
        f, f2 = e["f"]
        v = FAV[vi]
        f.set_frac(v)
        gf, gargs = spec(fs, w, None, "F", conv)
        r, out = gfmt(R, gf.encode(), gargs + [c_void_p(f.p)], gf)
        if out is None:
            return None
        txt = out.decode().strip().lstrip("0") if fs != "0" else out.decode().strip()
        m = _re.match(r"^([-+ ]?)(0*)0[xX]([0-9a-fA-F]*)\.?([0-9a-fA-F]*)[pP]([-+]?\d+)$", out.decode().strip().replace(" ", "") if w else out.decode())
        if not m:
            m = _re.match(r"^([-+]?)(0*)0[xX](0*[0-9a-fA-F]*)\.?([0-9a-fA-F]*)[pP]([-+]?\d+)$", out.decode().strip())
        if not m:
            R.fail("gmp_printf %Fa", "format %r value %s: %r is not a hexadecimal float" % (gf, v, out))
            return None
        sign, _z, ip, fp_, ex = m.groups()
        mant = Fraction(int((ip or "0") + fp_, 16), 16 ** len(fp_))
        val = mant * Fraction(2) ** int(ex)
        if sign == "-":
            val = -val
        if val != v:
            R.fail("gmp_printf %Fa", "format %r value %s: %r denotes %s" % (gf, v, out, val))
        if (conv == "a" and _re.search(r"[A-FXP]", out.decode())) or (conv == "A" and _re.search(r"[a-fxp]", out.decode())):
            R.fail("gmp_printf %Fa", "format %r: wrong letter case in %r" % (gf, out))
        if w and len(out) != max(w, len(out.strip())) and len(out) < w:
            R.fail("gmp_printf %Fa", "format %r: field narrower than the width: %r" % (gf, out))
        f2.set_frac(Fraction(99))
        n = g_sscanf(out.strip(), b"%Ff", c_void_p(f2.p))
        if n != 1 or f2.get() != v:
            R.fail("gmp_sscanf", "hexadecimal float %r read back as %s (assigned %d)" % (out, f2.get(), n))
        return ("Fa", conv, fs, w is None, vi)

    sp.append(Space("F_hex_float", list("aA"), fa_cases, fa_one, "%Fa / %FA on exact values with flags and width: the text denotes exactly the value (parsed back), letter case, and gmp_sscanf %Ff reads it back"))

    # ---- runs of standard conversions / literal text of EVERY length through the allocating and the bounded back ends: the pieces MPIR
    #      hands to the C library are formatted into a buffer that is grown when the piece does not fit, so exact-fit lengths matter ----
    def al_cases(blk):
        lo = blk
        for n in range(lo, lo + 64):
            for shape in range(4):
                yield (n, shape)

    def al_one(case, R):
        n, shape = case
        e = env()
        z = e["z"][0]
        z.set(-(10 ** 20) - 7 if shape != 3 else 5)
        if shape == 0:
            fmt, args = b"%*d|%Zd", [c_int(n), c_int(7), c_void_p(z.p)]
            exp = b"%*d" % (n, 7) + b"|" + str(z.get()).encode()
        elif shape == 1:
            fmt, args = b"%Zd%*d|", [c_void_p(z.p), c_int(n), c_int(7)]
            exp = str(z.get()).encode() + b"%*d" % (n, 7) + b"|"
        elif shape == 2:
            fmt, args = b"%Zd|" + b"x" * n + b"|%d", [c_void_p(z.p), c_int(42)]
            exp = str(z.get()).encode() + b"|" + b"x" * n + b"|42"
        else:
            fmt, args = b"%-*s%Zd", [c_int(n), c_char_p(b"ab"), c_void_p(z.p)]
            exp = b"ab".ljust(n) + b"5"
        L = len(exp)
        pp = c_void_p(0)
        r = S.v_vasprintf(byref(pp), fmt, *args)
        got = string_at(pp.value) if pp.value else None
        if r != L or got != exp:
            R.fail("gmp_vasprintf", "format %r (run of %d): returned %d, strlen %d, expected length %d%s" % (fmt[:30], n, r, len(got) if got is not None else -1, L, "" if got is None or got == exp else "; text differs at byte %d" % next((i for i in range(min(len(got), L)) if got[i] != exp[i]), min(len(got), L))))
        if pp.value:
            bs = S.v_block_size(pp.value)
            if bs != r + 1:
                R.fail("gmp_vasprintf", "format %r (run of %d): block of %d bytes for a result of length %d" % (fmt[:30], n, bs, r))
            S.v_free(pp.value, bs if bs != (1 << 64) - 1 else L + 1)
        buf = e["buf"]
        ctypes.memset(buf, 0xEE, L + 40)
        r = S.v_vsnprintf(c_void_p(addressof(buf)), c_size_t(L + 1), fmt, *args)
        if r != L or buf.raw[:L + 1] != exp + b"\0" or buf.raw[L + 1:L + 9] != b"\xee" * 8:
            R.fail("gmp_vsnprintf", "format %r (run of %d), size exactly length+1: returned %d / wrong text / wrote beyond" % (fmt[:30], n, r))
        if lib.alloc_errors() or S.v_check_guards():
            R.fail("gmp_printf family", "run of %d: %s" % (n, lib.alloc_msg()))
            S.v_reset_errors()
        return ("run", shape, n % 64 == 0, n > 512)

    sp.append(Space("standard_run_lengths", list(range(1, 1153, 64)), al_cases, al_one,
                    "gmp_vasprintf / gmp_vsnprintf: a run of standard conversions or literal text of EVERY length 1..1152 before, after and between MPIR conversions: text, return value, block size == length+1, guard bytes"))

    # ---- gmp_obstack_printf with the growing object anywhere relative to the end of the obstack's current chunk (an earlier object of every
    #      size around the chunk size) and with fields wider than a chunk: the object must hold exactly what gmp_snprintf produces ----
    OBF = [(b"[%40Zd]", "z"), (b"%-60Qd|", "q"), (b"%0100Zx", "z"), (b"%Zd%30s", "zs"), (b"%.50Ff|", "f")]

    def ob_cases(blk):
        lo = blk
        for pre in range(lo, lo + 16):
            for fi in range(len(OBF)):
                yield (pre, fi, 0)
        if lo == 3840:
            for wd in (4000, 4070, 4096, 4100, 5000, 9000, 20000):
                yield (0, 0, wd)

    def ob_one(case, R):
        pre, fi, wd = case
        e = env()
        z, q, f = e["z"][0], e["q"][0], e["f"][0]
        z.set(-12345678901234567890123)
        q.set(-7, (1 << 64) + 3)
        f.set_frac(Fraction(5, 8))
        if wd:
            fmt, kinds = b"%*Zd|", "Iz"
        else:
            fmt, kinds = OBF[fi]
        args = []
        for kch in kinds:
            args.append({"z": c_void_p(z.p), "q": c_void_p(q.p), "f": c_void_p(f.p), "s": c_char_p(b"tail"), "I": c_int(wd)}[kch])
        big = ctypes.create_string_buffer(wd + 400) if wd else e["buf"]
        ref = ctypes.create_string_buffer(wd + 400)
        rl = g_snprintf(c_void_p(addressof(ref)), c_size_t(wd + 399), fmt, *args)
        want = ref.raw[:rl]
        ctypes.memset(big, 0, wd + 300)
        r = S.v_obstack_printf(c_void_p(addressof(big)), c_size_t(wd + 300), pre, fmt, *args)
        got = big.raw[:rl + 4]
        if r != rl or got != b"pre:" + want:
            bad = next((i for i in range(min(len(got), rl + 4)) if got[i:i + 1] != (b"pre:" + want)[i:i + 1]), -1)
            R.fail("gmp_obstack_vprintf", "earlier object of %d bytes, format %r%s: returned %d (expected %d), object differs from gmp_snprintf's text at byte %d" % (pre, fmt, " width %d" % wd if wd else "", r, rl, bad))
        return ("ob", pre // 64, fi, wd)

    sp.append(Space("obstack_chunk_boundaries", list(range(3840, 4160, 16)), ob_cases, ob_one,
                    "gmp_obstack_vprintf after an earlier object of EVERY size 3840..4159 bytes (the growing object crosses the end of the current chunk at some of them) "
                    "x 5 padded formats, and fields of 4000..20000 characters on a fresh obstack: object == 'pre:' + gmp_snprintf text, return value"))

    # ---- sscanf reads back what printf wrote ----
    SC = [("%Zd", "d"), ("%Zx", "x"), ("%Zo", "o"), ("%#Zx", "i"), ("%#Zo", "i"), ("%Zd", "i"), ("%ZX", "x")]
    SV = LV + BIG

    def sc_cases(blk):
        i = blk
        for vi in range(len(SV)):
            yield (i, vi)

    def sc_one(case, R):
        i, vi = case
        e = env()
        pf, sconv = SC[i]
        v = SV[vi]
        z, z2, z3 = e["z"]
        z.set(v)
        r, out = gfmt(R, pf.encode(), [c_void_p(z.p)], pf)
        if out is None:
            return None
        z2.set(12345)
        n = g_sscanf(out, ("%Z" + sconv).encode(), c_void_p(z2.p))
        if n != 1 or z2.get() != v or z2.wf():
            R.fail("gmp_sscanf", "printed %r with %s, read with %%Z%s: assigned %d, value %x expected %x" % (out[:60], pf, sconv, n, z2.get(), v))
        # several fields, %n, a standard conversion in between
        line = out + b" 42 " + out + b"!"
        z2.set(1)
        z3.set(1)
        iv = c_int(0)
        pos = c_int(0)
        n = g_sscanf(line, ("%Z" + sconv + " %d %Z" + sconv + "%n").encode(), c_void_p(z2.p), byref(iv), c_void_p(z3.p), byref(pos))
        if n != 3 or z2.get() != v or z3.get() != v or iv.value != 42 or pos.value != len(line) - 1:
            R.fail("gmp_sscanf", "line %r: assigned %d (expected 3), values %x %d %x, %%n %d (expected %d)" % (line[:80], n, z2.get(), iv.value, z3.get(), pos.value, len(line) - 1))
        # early mismatch: count of assigned fields so far
        n = g_sscanf(out + b" x", ("%Z" + sconv + " %d").encode(), c_void_p(z2.p), byref(iv))
        if n != 1:
            R.fail("gmp_sscanf", "input %r: returned %d, expected 1 assigned field" % (out[:40] + b" x", n))
        # Q round trip
        q, q2 = e["q"]
        qv = Fraction(v, 1 + (abs(v) % 97))
        q.set(qv.numerator, qv.denominator)
        r, outq = gfmt(R, b"%Qd", [c_void_p(q.p)], "%Qd")
        n = g_sscanf(outq, b"%Qd", c_void_p(q2.p))
        if n != 1 or q2.raw() != (qv.numerator, qv.denominator):
            R.fail("gmp_sscanf", "%%Qd round trip of %s: assigned %d, got %x/%x" % (qv, n, q2.raw()[0], q2.raw()[1]))
        return ("scan", i, al.sgn(v), al.nl(abs(v)))

    sp.append(Space("sscanf_roundtrip", list(range(len(SC))), sc_cases, sc_one,
                    "gmp_sscanf reads back every string gmp_snprintf produced with the matching conversion (d<->d, x<->x, #x/#o<->i): single field, three fields with %d and %n, early mismatch count, %Qd"))

    # ---- gmp_sscanf against the C library's sscanf on the equal long: return count, assigned values, %n, for complete inputs, inputs cut
    #      after every character and inputs with a foreign character at every position ----
    import re as _re
    libc = ctypes.CDLL(None)
    libc_sscanf = libc.sscanf
    libc_sscanf.restype = c_int
    SF = ["%Zd", "%Zd %Zd", "%Zd,%Zd,%Zd", " %Zd x%Zd", "%3Zd%Zd", "%Zd%n", "%*Zd %Zd", "%Zd%%%Zd", "%Zi %Zi", "%Zx %Zo", "%5Zx|%Zd", "a%Zdb%Zd", "%Zd %d %Zd", "%d %Zd",
          "%Zd %s", "%c%Zd", "%Zd %n%Zd%n", "%2Zd%2Zd%2Zd", "%Zd %*d %Zd", "%Zd-%Zd", "%Zu %Zd"]
    SI = {
        "%Zd": ["123", "-45", "  7", "+9", "12x", ""],
        "%Zd %Zd": ["12345 678", "1 -2", "5", "7  ", "12,3"],
        "%Zd,%Zd,%Zd": ["1,2,3", "10,-20,30", "1,2", "1,,3", "1 ,2,3"],
        " %Zd x%Zd": [" 5 x6", "5x6", "  12 x-3", "5 y6"],
        "%3Zd%Zd": ["12345", "12 345", "-12345", "1"],
        "%Zd%n": ["123", "123 ", "  -5x"],
        "%*Zd %Zd": ["1 2", "11 -22 33", "5"],
        "%Zd%%%Zd": ["50%60", "50 %60", "50%", "50x60"],
        "%Zi %Zi": ["0x1f 017", "10 0x10", "-0x10 0", "077 8"],
        "%Zx %Zo": ["ff 17", "-1F 7", "0xff 017", "g 1"],
        "%5Zx|%Zd": ["abcde|5", "abcdef|5", "ab|77"],
        "a%Zdb%Zd": ["a1b2", "a-10b+20", "a1c2", "b1b2", "a1b"],
        "%Zd %d %Zd": ["1 2 3", "100 -200 300", "1 2", "1 x 3"],
        "%d %Zd": ["4 5", "-4 -5", "4"],
        "%Zd %s": ["12 abc", "12", "-7   word more"],
        "%c%Zd": ["x12", " 12", "-5"],
        "%Zd %n%Zd%n": ["1 2", "10   20 ", "3"],
        "%2Zd%2Zd%2Zd": ["123456", "12345", "-12-34", "1 2 3"],
        "%Zd %*d %Zd": ["1 2 3", "1 2", "1 x 3"],
        "%Zd-%Zd": ["10-20", "10--20", "10 -20", "10-"],
        "%Zu %Zd": ["10 20", "7", "+5 -5"],
    }

    def sl_ok(fmt, inp):
        # outside the comparison: (1) a "0x" prefix not followed by a hex digit - glibc stores 0 and counts the field where the C standard
        # (and MPIR) see a matching failure; (2) white space in front of a '%' matched by "%%" - C skips it for every conversion
        # specification, MPIR treats %% as a literal; neither concerns reading back printed values or the count of assigned fields
        if _re.search(r"0[xX](?![0-9a-fA-F])", inp):
            return False
        if "%%" in fmt and _re.search(r"\s%", inp):
            return False
        # (3) "0x" in front of a %Zx field: the C library's %lx accepts the prefix (strtoul rules), MPIR's %Zx reads plain hex digits like
        # mpz_set_str in base 16 does; prefixed text is read back with %Zi, which the round-trip space covers
        if _re.search(r"Z[xX]", fmt) and _re.search(r"0[xX]", inp):
            return False
        return True

    def sl_cases(blk):
        fi = blk
        for inp in SI[SF[fi]]:
            for k in range(len(inp) + 1):
                if sl_ok(SF[fi], inp[:k]):
                    yield (fi, inp[:k])
            for pos in range(len(inp) + 1):
                t = inp[:pos] + "!" + inp[pos:]
                if sl_ok(SF[fi], t):
                    yield (fi, t)

    CONV = _re.compile(r"%(\*?)(\d*)(Z?)([diouxXnsc%])")

    def sl_one(case, R):
        fi, inp = case
        e = env()
        fmt = SF[fi]
        gfm = fmt.encode()
        cfm = CONV.sub(lambda m: "%" + m.group(1) + m.group(2) + ("l" if m.group(3) and m.group(4) != "%" else "") + m.group(4), fmt).encode()
        ga, ca, kinds = [], [], []
        zs = [lib.Z() for _ in range(4)]
        zi = 0
        for m in CONV.finditer(fmt):
            star, width, zmod, conv = m.groups()
            if conv == "%" or star:
                continue
            if zmod:
                z = zs[zi]
                zi += 1
                z.set(777)
                ga.append(c_void_p(z.p))
                cl = c_long(777)
                ca.append(cl)
                kinds.append(("Z", z, cl))
            elif conv in "din":
                gi, ci = c_int(777), c_int(777)
                ga.append(gi)
                ca.append(ci)
                kinds.append(("i", gi, ci))
            else:
                gb, cb = ctypes.create_string_buffer(b"\x55" * 63, 64), ctypes.create_string_buffer(b"\x55" * 63, 64)
                ga.append(gb)
                ca.append(cb)
                kinds.append(("s", gb, cb))
        bi = inp.encode()
        rg = g_sscanf(bi, gfm, *[a if isinstance(a, c_void_p) else byref(a) if not isinstance(a, ctypes.Array) else a for a in ga])
        rc = libc_sscanf(bi, cfm, *[byref(a) if not isinstance(a, ctypes.Array) else a for a in ca])
        if rg != rc:
            R.fail("gmp_sscanf", "format %r input %r: returned %d, the C library returns %d for %r" % (fmt, inp, rg, rc, cfm))
        for j, (k, g_, c_) in enumerate(kinds):
            if k == "Z":
                if g_.get() != c_.value or g_.wf():
                    R.fail("gmp_sscanf", "format %r input %r: field %d is %d, the C library stores %d" % (fmt, inp, j, g_.get(), c_.value))
            elif k == "i":
                if g_.value != c_.value:
                    R.fail("gmp_sscanf", "format %r input %r: int field %d is %d, the C library stores %d" % (fmt, inp, j, g_.value, c_.value))
            elif g_.raw != c_.raw:
                R.fail("gmp_sscanf", "format %r input %r: string field %d differs" % (fmt, inp, j))
        return ("sl", fi, rg, len(inp) > 3)

    sp.append(Space("sscanf_vs_libc", list(range(len(SF))), sl_cases, sl_one,
                    "gmp_sscanf vs the C library's sscanf on the same text (Z conversions against %ld/%li/%lx/%lo): 21 formats (several fields, literals, %%, widths, suppression, %n, mixed standard conversions) x complete inputs, every prefix, a foreign character at every position: same count, same stored values"))

    FS = [Fraction(0), Fraction(1), Fraction(-3, 2), Fraction(5, 8), Fraction(1 << 40), Fraction(-1, 1 << 10), Fraction(12345678), Fraction(1, 4)]

    def fsc_cases(blk):
        conv = blk
        for i in range(len(FS)):
            yield (conv, i)

    def fsc_one(case, R):
        conv, i = case
        e = env()
        f, f2 = e["f"]
        f.set_frac(FS[i])
        pf = "%.20F" + conv
        r, out = gfmt(R, pf.encode(), [c_void_p(f.p)], pf)
        if out is None:
            return None
        f2.set_frac(Fraction(99))
        n = g_sscanf(out, b"%Ff", c_void_p(f2.p))
        if n != 1 or f2.get() != FS[i] or f2.wf():
            R.fail("gmp_sscanf", "printed %r with %s, read with %%Ff: assigned %d, value %s expected %s" % (out, pf, n, f2.get(), FS[i]))
        return ("fscan", conv, i)

    sp.append(Space("sscanf_F_roundtrip", list("feg"), fsc_cases, fsc_one, "%Ff/%Fe/%Fg output of exactly representable values read back with %Ff"))
    return sp
