"""C03  Add, subtract, negate, shift and copy compute the exact limb-vector function."""
import itertools
from ctypes import c_void_p, c_long, c_ulong, c_int, c_uint64, c_uint
from .. import lib, alphabet as al, mpnops as mo
from ..explore import Space

ID = "C03"
LEVEL = "exploration"
RULE = ("bounded-exhaustive enumeration: every length n up to the bound x every content vector of the stated families "
        "(EXH = all vectors over a limb alphabet, RUN = all vectors of <= r constant runs, PAT = named patterns) x every "
        "permitted overlap x every scalar (shift count, carry-in, limb) of the stated sets; each executed on the real "
        "library and compared with Python integer arithmetic. distinct_nontrivial = number of distinct outcome signatures "
        "(function, n, overlap mode, returned carry/borrow/shifted-out-bits class, result-size class).")
ASSUMPTIONS = ["Python int arithmetic is the reference model", "contents outside the alphabets/run families and n above the bound are not explored"]
BUDGET = {"quick": 300, "thorough": 2400}


def passes(tier):
    return ["pin"] if tier == "quick" else ["pin", "asan"]


_A = None
_F = {}


def _arena():
    global _A
    if _A is None:
        _A = mo.Arena(8192)
    return _A


def _f(name):
    f = _F.get(name)
    if f is None:
        f = _F[name] = mo.bind(lib.L, name)
    return f


def _contents2(n, tier):
    """pairs (a,b) of n-limb operands"""
    if n <= 5 and (tier != "quick" or n <= 4):
        A = list(al.EXH(al.L3, n))
        return itertools.product(A, A)
    if n <= (16 if tier == "quick" else 40):
        A = al.RUN_list(al.L3, n, 2)
        extra = [1 << (64 * (n - 1)), al.ones(n) - 1, al.H << (64 * (n - 1))]
        A = A + [x for x in extra if x not in A]
        return itertools.product(A, A)
    A = al.RUN_list(al.L5, n, 2)
    Bs = al.RUN_list(al.L3, n, 1) + [1, 1 << (64 * (n - 1)), al.ones(n) - 1, al.ones(n) ^ al.ones(n // 2)]
    return itertools.chain(itertools.product(A, Bs), itertools.product(Bs[1:], A))


def _contents1(n, tier, r=None):
    if n <= 4:
        return list(al.EXH(al.L5, n))
    if r is None:
        r = 3 if n <= (12 if tier == "quick" else 32) else 2
    v = al.RUN_list(al.L5, n, r)
    for p in al.PATL(n):
        if p not in v[:0]:
            v.append(p)
    return v


def spaces(tier, variant, seed):
    N = 40 if tier == "quick" else 72
    if variant == "asan":
        N = 33
    sp = []

    # ---- 1. add_n / sub_n and the eight logic ops share the (rp,s1,s2,n) shape; logic ops are C10's ----
    def n2_cases(blk):
        op, n = blk
        for a, b in _contents2(n, tier):
            for mode in (0, 1, 2):
                yield (op, n, a, b, mode)
            if a == b:
                yield (op, n, a, b, 3)
                yield (op, n, a, b, 4)

    def n2_one(case, R):
        op, n, a, b, mode = case
        cls, ref = mo.REF[op]
        m = mo.run_n2(_arena(), _f(op), ref, n, a, b, mode)
        if m:
            R.fail("mpn_" + op, m)
        er, ev = ref(a, b if mode < 3 else a, n)
        return (op, n, mode, er, ev == 0)

    sp.append(Space("mpn_add_n_sub_n", [(op, n) for n in range(1, N + 1) for op in ("add_n", "sub_n")], n2_cases, n2_one,
                    "mpn_add_n/sub_n: n=1..%d; EXH(L3)^2 for small n, RUN(L3,n,2)^2 medium, RUN(L5,n,2)xRUN(L3,n,1)+ beyond; "
                    "overlap modes: separate, rp==s1, rp==s2, all same, s1==s2" % N))

    # ---- 2. copyi, copyd, com_n, neg_n with every permitted overlap offset ----
    deltas = {"copyi": (None, 0, -1, -2, -3), "copyd": (None, 0, 1, 2, 3), "com_n": (None, 0), "neg_n": (None, 0)}

    def n1_cases(blk):
        op, n = blk
        for a in _contents1(n, tier):
            for d in deltas[op]:
                yield (op, n, a, d)

    def n1_one(case, R):
        op, n, a, d = case
        cls, ref = mo.REF[op]
        m = mo.run_n1(_arena(), _f(op), ref, n, a, d)
        if m:
            R.fail("mpn_" + op, m)
        return (op, n, d, ref(a, n)[0])

    sp.append(Space("mpn_copy_com_neg", [(op, n) for n in range(1, N + 1) for op in deltas], n1_cases, n1_one,
                    "mpn_copyi (rp<=sp by 0..3 limbs), copyd (rp>=sp), com_n, neg_n: RUN(L5,n,3|2) + PAT"))

    # ---- 3. shifts ----
    def sh_counts(n):
        if tier == "quick" and n > 8:
            return (1, 2, 31, 32, 33, 62, 63)
        return range(1, 64)

    def sh_cases(blk):
        op, n = blk
        vals = al.RUN_list(al.L3, n, 2) if n > 3 else list(al.EXH(al.L5, n))
        for p in al.PATL(n):
            if p not in vals:
                vals.append(p)
        ds = (None, 0, 1, 2, 3) if op == "lshift" else (None, 0, -1, -2, -3)
        for a in vals:
            for c in sh_counts(n):
                for d in ds:
                    yield (op, n, a, c, d)

    def sh_one(case, R):
        op, n, a, c, d = case
        cls, ref = mo.REF[op]
        m = mo.run_sh(_arena(), _f(op), ref, n, a, c, d)
        if m:
            R.fail("mpn_" + op, m)
        return (op, n, d, c, ref(a, n, c)[0] != 0)

    sp.append(Space("mpn_shift", [(op, n) for n in range(1, N + 1) for op in ("lshift", "rshift")], sh_cases, sh_one,
                    "mpn_lshift (rp>=sp by 0..3 limbs) / mpn_rshift (rp<=sp): RUN(L3,n,2)+PAT x counts x overlaps"))

    # ---- 4. add_1 / sub_1 ----
    def l1_cases(blk):
        op, n = blk
        for a in _contents1(n, tier, 2):
            for l in al.L9:
                yield (op, n, a, l, 0)
                yield (op, n, a, l, 1)

    def l1_one(case, R):
        op, n, a, l, ip = case
        cls, ref = mo.REF[op]
        m = mo.run_l1(_arena(), _f(op), ref, n, a, l, ip)
        if m:
            R.fail("mpn_" + op, m)
        return (op, n, ip, ref(a, n, l)[0])

    sp.append(Space("mpn_add_1_sub_1", [(op, n) for n in range(1, N + 1) for op in ("add_1", "sub_1")], l1_cases, l1_one,
                    "mpn_add_1/sub_1: RUN(L5,n,2)+PAT x limb in L9 x {separate,in place}"))

    # ---- 5. mpn_add / mpn_sub with n1 >= n2 ----
    NA = 20 if tier == "quick" else 40

    def ao_cases(blk):
        op, n1 = blk
        A = al.RUN_list(al.L3, n1, 2) if n1 > 3 else list(al.EXH(al.L3, n1))
        for n2 in range(1, n1 + 1):
            Bs = al.RUN_list(al.L3, n2, 2 if n2 <= 6 else 1) + [1, 1 << (64 * (n2 - 1))]
            for a in A:
                for b in Bs:
                    for mode in (0, 1, 2):
                        yield (op, n1, a, n2, b, mode)

    def ao_one(case, R):
        op, n1, a, n2, b, mode = case
        cls, ref = mo.REF[op]
        m = mo.run_ao(_arena(), _f(op), ref, n1, a, n2, b, mode)
        if m:
            R.fail("mpn_" + op, m)
        return (op, n1, n2, mode, ref(a, n1, b, n2)[0])

    sp.append(Space("mpn_add_sub", [(op, n) for n in range(1, NA + 1) for op in ("add", "sub")], ao_cases, ao_one,
                    "mpn_add/mpn_sub: all (n1>=n2) up to %d, RUN(L3) contents, 3 overlap modes" % NA))

    # ---- 6. cmp, zero_p, zero ----
    cmpf = lib.fn("mpn_cmp", c_int, c_void_p, c_void_p, c_long)
    zerop = lib.fn("mpn_zero_p", c_int, c_void_p, c_long)
    zero = lib.fn("mpn_zero", None, c_void_p, c_long)

    def cz_cases(blk):
        n = blk
        A = al.RUN_list(al.L5, n, 2) if n > 3 else list(al.EXH(al.L5, n))
        if n <= 12:
            for a, b in itertools.product(A, A):
                yield ("cmp", n, a, b)
        else:
            S = al.RUN_list(al.L3, n, 2)
            for a in S:
                for b in S:
                    yield ("cmp", n, a, b)
        for a in A:
            yield ("zero_p", n, a, 0)
            yield ("zero", n, a, 0)

    def cz_one(case, R):
        op, n, a, b = case
        A = _arena()
        end = 3 * mo.G + 2 * n
        A.reset(end)
        A.put(mo.G, a, n)
        if op == "cmp":
            A.put(2 * mo.G + n, b, n)
            r = cmpf(A.addr(mo.G), A.addr(2 * mo.G + n), n)
            e = (a > b) - (a < b)
            if (r > 0) - (r < 0) != e:
                R.fail("mpn_cmp", "returned %d, expected sign %d" % (r, e))
            if A.get(mo.G, n) != a or A.get(2 * mo.G + n, n) != b or not A.untouched(end, [(mo.G, n), (2 * mo.G + n, n)]):
                R.fail("mpn_cmp", "memory modified")
            return (op, n, e)
        if op == "zero_p":
            r = zerop(A.addr(mo.G), n)
            if bool(r) != (a == 0):
                R.fail("mpn_zero_p", "returned %d for %x" % (r, a))
            return (op, n, a == 0)
        zero(A.addr(mo.G), n)
        if A.get(mo.G, n) != 0 or not A.untouched(end, [(mo.G, n)]):
            R.fail("mpn_zero", "not zeroed or wrote outside")
        return (op, n)

    sp.append(Space("mpn_cmp_zero", list(range(1, N + 1)), cz_cases, cz_one, "mpn_cmp (all pairs of RUN contents), mpn_zero_p, mpn_zero"))

    # ---- 7. fused kernels: addadd_n, addsub_n, subadd_n, sumdiff_n, nsumdiff_n, add/sub_err1/2_n ----
    NF = 24 if tier == "quick" else 48

    def fu_cases(blk):
        op, n = blk
        if n <= 3:
            A = list(al.EXH(al.L3, n))
        else:
            A = al.RUN_list(al.L3, n, 2 if n <= 10 else 1) + [1, al.ones(n) - 1, 1 << (64 * (n - 1))]
        if mo.REF[op][0] in ("n3", "n3s"):
            A3 = A if n <= 6 else (al.RUN_list(al.L3, n, 1) + [1, al.ones(n) - 1, al.ones(n) ^ al.ones(n // 2), 1 << (64 * (n - 1))])
            for a, b, c in itertools.product(A3, A3, A3):
                for mode in (0, 1, 2, 3):
                    yield (op, n, a, b, c, mode)
        else:
            for a, b in itertools.product(A, A):
                for mode in (0, 1, 2):
                    yield (op, n, a, b, 0, mode)

    def fu_one(case, R):
        op, n, a, b, c, mode = case
        cls, ref = mo.REF[op]
        if cls in ("n3", "n3s"):
            m = mo.run_n3(_arena(), _f(op), ref, n, a, b, c, mode)
            sg = ref(a, b, c, n)[0]
        else:
            m = mo.run_sd(_arena(), _f(op), ref, n, a, b, mode)
            sg = ref(a, b, n)[0]
        if m:
            R.fail("mpn_" + op, m)
        return (op, n, mode, sg)

    fused = [o for o in ("addadd_n", "addsub_n", "subadd_n", "sumdiff_n", "nsumdiff_n") if lib.has("mpn_" + o)]
    sp.append(Space("mpn_fused", [(op, n) for n in range(1, NF + 1) for op in fused], fu_cases, fu_one,
                    "addadd_n/addsub_n/subadd_n (rp==each source) and sumdiff_n/nsumdiff_n (in place both ways)"))

    # err kernels
    errs = {}
    for nm, k in (("add_err1_n", 1), ("sub_err1_n", 1), ("add_err2_n", 2), ("sub_err2_n", 2)):
        if lib.has("mpn_" + nm):
            at = [c_void_p, c_void_p, c_void_p, c_void_p] + [c_void_p] * k + [c_long, c_uint64]
            errs[nm] = (lib.fn("mpn_" + nm, c_uint64, *at), k)

    def er_cases(blk):
        op, n = blk
        A = al.RUN_list(al.L3, n, 2) if n > 3 else list(al.EXH(al.L3, n))
        Y = [al.ones(n), 1, al.rep(al.H, n), int("0123456789abcdef" * n, 16)]
        if n > 8:
            A2 = al.RUN_list(al.L3, n, 1) + [1, al.ones(n) - 1]
        else:
            A2 = A
        for a in A:
            for b in A2:
                for y in Y:
                    for cy in (0, 1):
                        yield (op, n, a, b, y, cy, 0)
                yield (op, n, a, b, Y[3], 1, 1)

    def er_one(case, R):
        op, n, a, b, y, cy, inplace = case
        f, k = errs[op]
        A = _arena()
        G = mo.G
        ou, ov = G, 2 * G + n
        oy1, oy2 = 3 * G + 2 * n, 4 * G + 3 * n
        oe = 5 * G + 4 * n
        orr = oe + 2 * k + G if not inplace else ou
        end = oe + 2 * k + G + n + G
        A.reset(end)
        A.put(ou, a, n)
        A.put(ov, b, n)
        y2 = ((y * 0x9E3779B97F4A7C15) ^ (y >> 7)) & al.ones(n)
        A.put(oy1, y, n)
        A.put(oy2, y2, n)
        if k == 1:
            ret = f(A.addr(orr), A.addr(ou), A.addr(ov), A.addr(oe), A.addr(oy1), n, cy)
        else:
            ret = f(A.addr(orr), A.addr(ou), A.addr(ov), A.addr(oe), A.addr(oy1), A.addr(oy2), n, cy)
        # reference
        sub = op.startswith("sub")
        c = cy
        e1 = e2 = 0
        r = 0
        for i in range(n):
            ul = (a >> (64 * i)) & mo.M
            vl = (b >> (64 * i)) & mo.M
            t = ul - vl - c if sub else ul + vl + c
            c = 1 if (t < 0 or t >> 64) else 0
            r |= (t & mo.M) << (64 * i)
            if c:
                e1 += (y >> (64 * (n - 1 - i))) & mo.M
                e2 += (y2 >> (64 * (n - 1 - i))) & mo.M
        got = A.get(orr, n)
        ge1 = A.get(oe, 2)
        bad = got != r or ret != c or ge1 != e1
        if k == 2:
            ge2 = A.get(oe + 2, 2)
            bad = bad or ge2 != e2
        if bad:
            R.fail("mpn_" + op, "r=%x ret=%d e=%x, expected r=%x ret=%d e1=%x e2=%x" % (got, ret, A.get(oe, 2 * k), r, c, e1, e2))
        if not A.untouched(end, [(ou, n), (ov, n), (oy1, n), (oy2, n), (oe, 2 * k), (orr, n)]):
            R.fail("mpn_" + op, "wrote outside destination")
        if A.get(oy1, n) != y or A.get(ov, n) != b or (not inplace and A.get(ou, n) != a):
            R.fail("mpn_" + op, "source modified")
        return (op, n, c, e1 == 0, inplace)

    if errs:
        sp.append(Space("mpn_err_n", [(op, n) for n in range(1, NF + 1) for op in errs], er_cases, er_one,
                        "mpn_add/sub_err1_n, _err2_n (x86_64 assembly in the pinned build): carry chains x weight vectors x carry-in"))

    # ---- 8. mpz layer ----
    P = c_void_p
    zf = {n: lib.fn("mpz_" + n, None, P, P, P) for n in ("add", "sub")}
    zui = {n: lib.fn("mpz_" + n, None, P, P, c_ulong) for n in ("add_ui", "sub_ui", "mul_2exp")}
    zuis = lib.fn("mpz_ui_sub", None, P, c_ulong, P)
    z1 = {n: lib.fn("mpz_" + n, None, P, P) for n in ("neg", "abs", "set", "swap")}
    pool = {}

    def zs():
        if not pool:
            pool["w"], pool["u"], pool["v"] = lib.Z(), lib.Z(), lib.Z()
        return pool["w"], pool["u"], pool["v"]

    def zvals(maxl, A=al.L5):
        vals = [0]
        for n in range(1, maxl + 1):
            for v in al.EXH(A, n):
                if v >> (64 * (n - 1)):
                    vals.append(v)
                    vals.append(-v)
        return vals

    ZV = zvals(3)
    ZV4 = zvals(2) + [s * v for n in (4, 5, 8) for v in al.RUN_list(al.L3, n, 2) if v >> (64 * (n - 1)) for s in (1, -1)]

    def za_cases(blk):
        op, i = blk
        vals = ZV if i < len(ZV) else None
        a = ZV[i]
        for b in ZV:
            for mode in (0, 1, 2):
                yield (op, a, b, mode)
            if a == b:
                yield (op, a, b, 3)
                yield (op, a, b, 4)

    def za_one(case, R):
        op, a, b, mode = case
        w, u, v = zs()
        e = a + b if op == "add" else a - b
        u.set(a)
        v.set(b)
        f = zf[op]
        if mode == 0:
            w.set((a ^ b) & 0xFFFF, alloc=1 + (abs(a) & 3))
            f(w.p, u.p, v.p)
            out = w
        elif mode == 1:
            f(u.p, u.p, v.p)
            out = u
        elif mode == 2:
            f(v.p, u.p, v.p)
            out = v
        elif mode == 3:
            f(u.p, u.p, u.p)
            out = u
        else:
            w.set(5, alloc=1)
            f(w.p, u.p, u.p)
            out = w
        g = out.get()
        if g != e:
            R.fail("mpz_" + op, "got %d expected %d (alias mode %d)" % (g, e, mode))
        m = out.wf()
        if m:
            R.fail("mpz_" + op, "result ill-formed: " + m)
        if out is not u and u.get() != a:
            R.fail("mpz_" + op, "input u modified")
        if out is not v and mode < 3 and v.get() != b:
            R.fail("mpz_" + op, "input v modified")
        return (op, mode, (a > 0) - (a < 0), (b > 0) - (b < 0), al.nl(abs(a)), al.nl(abs(b)), al.nl(abs(e)), (e > 0) - (e < 0))

    sp.append(Space("mpz_add_sub", [(op, i) for i in range(len(ZV)) for op in ("add", "sub")], za_cases, za_one,
                    "mpz_add/mpz_sub: all ordered pairs of {0, +-EXH(L5) up to 3 limbs} x alias modes (w, w==u, w==v, all same, u==v)"))

    def zl_cases(blk):
        kind, i = blk
        a = ZV4[i]
        if kind == "ui":
            for l in al.L9 + (3, al.M - 2):
                for op in ("add_ui", "sub_ui", "ui_sub"):
                    for ip in (0, 1):
                        yield (op, a, l, ip)
        elif kind == "un":
            for op in ("neg", "abs", "set", "swap"):
                for ip in (0, 1):
                    yield (op, a, 0, ip)
        else:
            for c in (0, 1, 2, 31, 32, 33, 63, 64, 65, 127, 128, 129, 191, 192, 1000):
                for ip in (0, 1):
                    yield ("mul_2exp", a, c, ip)

    def zl_one(case, R):
        op, a, l, ip = case
        w, u, v = zs()
        u.set(a)
        out = u if ip else w
        if not ip:
            w.set(-7 * (l & 3), alloc=1 + (l & 1))
        if op == "add_ui":
            e = a + l
            zui[op](out.p, u.p, l)
        elif op == "sub_ui":
            e = a - l
            zui[op](out.p, u.p, l)
        elif op == "ui_sub":
            e = l - a
            zuis(out.p, l, u.p)
        elif op == "mul_2exp":
            e = a << l
            zui[op](out.p, u.p, l)
        elif op == "neg":
            e = -a
            z1[op](out.p, u.p)
        elif op == "abs":
            e = abs(a)
            z1[op](out.p, u.p)
        elif op == "set":
            e = a
            z1[op](out.p, u.p)
        else:
            # swap: exchanges w and u
            w.set(12345 + (a & 0xFF), alloc=2)
            z1[op](w.p, u.p)
            if w.get() != a or u.get() != 12345 + (a & 0xFF):
                R.fail("mpz_swap", "values not exchanged")
            if w.wf() or u.wf():
                R.fail("mpz_swap", "ill-formed after swap")
            return (op, al.nl(abs(a)))
        g = out.get()
        if g != e:
            R.fail("mpz_" + op, "got %d expected %d (in place %d)" % (g, e, ip))
        m = out.wf()
        if m:
            R.fail("mpz_" + op, "result ill-formed: " + m)
        if not ip and u.get() != a:
            R.fail("mpz_" + op, "input modified")
        return (op, ip, (a > 0) - (a < 0), al.nl(abs(a)), al.nl(abs(e)), (e > 0) - (e < 0), l % 64 == 0)

    sp.append(Space("mpz_small_ops", [(k, i) for i in range(len(ZV4)) for k in ("ui", "un", "sh")], zl_cases, zl_one,
                    "mpz_add_ui/sub_ui/ui_sub (limb in L9+), neg/abs/set/swap, mul_2exp (counts crossing limb boundaries), separate and in place"))
    return sp
