"""C14  Results are independent of CPU-specific kernels, tuning tables and build options."""
import os, sys, ctypes, importlib, math
from ctypes import c_void_p, c_long, c_ulong, c_int, c_uint64, addressof, Structure, c_char_p, byref
from .. import lib, alphabet as al, mpnops as mo, rt, kernels as K, build
from ..explore import Space

ID = "C14"
LEVEL = "exploration"
TECHNIQUE = ("bounded-exhaustive differential enumeration: every x86-64 kernel file assembled alone vs the portable C routine over all lengths/contents/scalars "
             "in the bound; the cross-property battery re-executed under every shipped tuning vector (run-time-threshold build) and under real rebuilds "
             "(fat, assert, alloca variants, per-CPU paths) against the same reference model")
RULE = ("(1) every file under mpn/x86_64/** is assembled alone into its own shared object and compared byte for byte (destinations, return value, bytes "
        "outside the destination, sources) with mpn/generic/<name>.c compiled alone (Python definitions for the routines without a generic file; "
        "karaadd/karasub through the Karatsuba identity) for n = 1..N x content family x every scalar argument of the stated sets; (2) the small-scope "
        "batteries of C01, C02, C03, C06-C10, C16 are re-run under the run-time-threshold build with EVERY gmp-mparam.h vector shipped in the tree, the "
        "floor vector, and against the reference model; (3) the same battery under real rebuilds of the working tree: --enable-fat (and the dispatcher's "
        "choices must be kernels of the running CPU's vendor family), --enable-assert, --enable-alloca=debug/malloc-reentrant/malloc-notreentrant, and "
        "--build=<cpu> for the x86-64 CPU families; every result is compared with the Python oracle, hence identical across configurations. "
        "distinct_nontrivial = distinct (kernel file | configuration, routine, size, content index, scalar) tuples.")
RULE = RULE + (" " + 'Later additions: --enable-alloca=debug rebuild in the quick tier with the whole aliasing table under it; one fresh process per fat dispatch slot (the first dispatched call must agree with the same call after initialisation); per-CPU rebuilds drop -march when the host lacks an ISA extension the compiler could use.')
ASSUMPTIONS = ["kernels that need an ISA extension the host lacks are recorded as not executable here (the property's own exclusion), not as violations",
               "mod_1_1/2/3 kernels return an unnormalised two-limb residue: they are checked through the defining congruence, not byte for byte",
               "identical-to-oracle under every configuration implies identical across configurations"]
BUDGET = {"quick": 900, "thorough": 6000}
PASS_WEIGHT = {"rt": 10, "pin": 3}          # share of the tier's time budget (every shipped threshold vector runs in the rt pass)
QUICK_VARIANTS = ["fat", "cpu-haswell", "alloca-debug"]
THOROUGH_VARIANTS = ["fat", "assert", "alloca-debug", "alloca-malloc", "alloca-notreent"] + ["cpu-" + c for c in build.CPUS]


def passes(tier):
    return ["pin", "rt"] + (QUICK_VARIANTS if tier == "quick" else THOROUGH_VARIANTS)


_KIDX = None


def load(variant):
    global _KIDX
    if variant == "rt":
        rt.load()
    else:
        lib.load(variant)
    if variant == "pin":
        _KIDX = K.prepare(lib.META)


BATTERY = ["C01", "C02", "C03", "C06", "C07", "C08", "C09", "C10", "C16"]
# spaces of those modules that make up the cross-property battery (public API and mpn entry points at small scope)
BATTERY_SPACES = {
    "C01": ["pin_mul_all_shapes", "pin_balanced", "pin_small_dense", "mpn_mul_1_addmul_1_submul_1", "mpz_mul", "mpz_addmul_submul", "rt_floor_all_shapes", "rt_floor_balanced"],
    "C02": ["pin_tdiv_qr_all_shapes", "pin_tdiv_qr_small_dense", "mpn_single_limb_division", "mpn_divrem_2", "mpz_div_zz", "mpz_div_ui_2exp", "rt_floor_tdiv_qr_all_shapes"],
    "C03": ["mpn_add_n_sub_n", "mpn_copy_com_neg", "mpn_shift", "mpn_add_1_sub_1", "mpn_fused", "mpn_err_n", "mpz_add_sub"],
    "C06": ["get_str_all_bases", "set_str_lengths"],
    "C07": ["small_pairs", "pin_constructed", "mpn_gcd_gcdext", "rt_floor_constructed"],
    "C08": ["powm_small", "powm_sizes", "rt_powm_sizes", "pow_ui"],
    "C09": ["roots_kn", "sqrt_family", "mpn_sqrtrem"],
    "C10": ["mpz_and_ior_xor", "mpn_logic", "mpn_popcount_hamdist_scan"],
    "C16": ["fac_2fac_primorial", "binomials", "fib_lucas", "primality_all_small"],
}


def battery_spaces(variant, stride, cfgname=None, vector=None):
    """spaces of the other property modules, thinned to every `stride`-th block (deterministic), renamed with the configuration"""
    out = []
    sub = "rt" if variant == "rt" else "pin"
    for mid in BATTERY:
        mod = importlib.import_module("mc.props." + mid)
        for s in mod.spaces("quick", sub, 0):
            if s.name not in BATTERY_SPACES[mid]:
                continue
            blocks = s.blocks[::stride] if len(s.blocks) > 4 else s.blocks
            one = s.one
            if vector is not None:
                def mk(one=one, vector=vector):
                    def f(case, R):
                        rt.set_vector(vector)          # the module under test may switch to its own vector; spaces chosen here only use BASECFG / floor
                        return one(case, R)
                    return f
                one = mk()
            out.append(Space("%s/%s/%s" % (cfgname or variant, mid, s.name), blocks, s.cases, one, s.doc))
    return out


class DlInfo(Structure):
    _fields_ = [("dli_fname", c_char_p), ("dli_fbase", c_void_p), ("dli_sname", c_char_p), ("dli_saddr", c_void_p)]


def fat_dispatch_check():
    """names of the kernels the fat dispatcher chose after initialisation + vendor consistency"""
    L = lib.L
    try:
        vec = (c_void_p * 31).in_dll(L, "__gmpn_cpuvec")
    except ValueError:
        return None, "no __gmpn_cpuvec in this build"
    # force initialisation through a public call
    z = lib.Z(12345)
    lib.fn("mpz_mul", None, c_void_p, c_void_p, c_void_p)(z.p, z.p, z.p)
    try:
        L.__gmpn_cpuvec_init()
    except Exception:
        pass
    dl = ctypes.CDLL(None)
    dl.dladdr.argtypes = [c_void_p, ctypes.POINTER(DlInfo)]
    names = []
    for p in vec:
        info = DlInfo()
        if p and dl.dladdr(p, byref(info)) and info.dli_sname:
            names.append(info.dli_sname.decode())
        else:
            names.append("?")
    vendor = "unknown"
    for line in open("/proc/cpuinfo"):
        if line.startswith("vendor_id"):
            vendor = line.split(":")[1].strip()
            break
    amd = ("_k8", "_k10", "_k102", "_bobcat", "_bulldozer", "_piledriver")
    intel = ("_core2", "_penryn", "_nehalem", "_westmere", "_sandybridge", "_ivybridge", "_haswell", "_broadwell", "_skylake", "_atom", "_netburst")
    bad = []
    for n in names:
        if vendor == "GenuineIntel" and n.endswith(amd):
            bad.append(n)
        if vendor == "AuthenticAMD" and n.endswith(intel):
            bad.append(n)
        if n.endswith("_init") or "fat_entry" in n:
            bad.append(n + " (still uninitialised)")
    return names, bad


def spaces(tier, variant, seed):
    quick = tier == "quick"
    sp = []
    if variant == "pin":
        idx = _KIDX
        kern = [k for k in idx["kernels"] if k["name"] in K.SIG or k["name"] in ("karaadd", "karasub", "mul_2", "addmul_2", "redc_1", "divexact_byfobm1", "mod_1_1", "mod_1_2", "mod_1_3")]
        skipped = sorted({k["name"] for k in idx["kernels"]} - {k["name"] for k in kern})
        N = 40 if quick else 72
        handles = {}
        refh = {}
        A = {}

        def arena():
            if "a" not in A:
                A["a"] = mo.Arena(4096)
            return A["a"]

        def kh(i):
            if i not in handles:
                handles[i] = ctypes.CDLL(kern[i]["so"])
            return handles[i]

        def rh(name):
            if name not in refh:
                refh[name] = ctypes.CDLL(idx["refs"][name]) if name in idx["refs"] else None
            return refh[name]

        def k_cases(blk):
            i = blk
            name = kern[i]["name"]
            if name in K.SIG:
                lim = K.sqr_limit(build.REPO, kern[i]["file"]) if name == "sqr_basecase" else None
                for sz, k, k2, sc in K.cases_for(name, K.SIG[name], N, lim):
                    yield (i, tuple(sorted(sz.items())), k, k2, tuple(sorted(sc.items())))
            elif name in ("karaadd", "karasub"):
                for n in range(8, N + 1):          # MPN_KARA_MUL_N_MINSIZE is 8 when these kernels are native
                    for k in range(10):
                        yield (i, (("n", n),), k, 0, ())
            elif name in ("mul_2", "addmul_2"):
                for n in range(1, N + 1):
                    for k in range(12):
                        for k2 in range(4):
                            yield (i, (("n", n),), k, k2, ())
            elif name == "redc_1":
                for n in range(1, min(N, 32) + 1):
                    for k in range(10):
                        yield (i, (("n", n),), k, 0, ())
            elif name in ("mod_1_1", "mod_1_2", "mod_1_3"):
                kk = int(name[-1])
                for n in range(kk + 2, N + 1):
                    for k in range(12):
                        for d in (1, 2, 3, 10, 0xFFFFFFFF, (1 << 32) + 1, (1 << 61) - 1, (1 << 62) - 57, ((1 << 64) // (kk + 1)) + 1, ((1 << 64) // (kk + 1)) - 3):
                            yield (i, (("n", n),), k, 0, (("d", d),))
            elif name == "divexact_byfobm1":
                for n in range(1, N + 1):
                    for k in range(10):
                        for f in (3, 5, 15, 17, 51, 85, 255, 257, 65535, 65537, 0xFFFFFFFF, (1 << 32) + 1):
                            yield (i, (("n", n),), k, 0, (("f", f),))

        def k_one(case, R):
            i, szt, k, k2, sct = case
            kf = kern[i]
            name = kf["name"]
            sz, sc = dict(szt), dict(sct)
            tag = kf["file"]
            if name in K.SIG:
                sig = K.SIG[name]
                f = K.bind(kh(i), name, sig)
                r1, o1, ok1, ins, env = K.run_case(arena(), f, name, sig, sz, k, k2, sc)
                if name in K.PYREF:
                    er, eouts = K.PYREF[name](ins, env)
                    exp_o = [v for v in eouts]
                    got_o = [v for kind, ln, v in o1 if kind in "OX"]
                    if any(kind == "INPUT-MODIFIED" for kind, ln, v in o1):
                        R.fail(tag, "%s %s %s: input operand modified" % (name, sz, sc))
                    if got_o != exp_o or (er is not None and r1 != er):
                        R.fail(tag, "%s %s %s contents %d/%d: kernel gives ret %r out %s, definition gives ret %r out %s" % (name, sz, sc, k, k2, r1, [hex(x) for x in got_o], er, [hex(x) for x in exp_o]))
                else:
                    h = rh(name)
                    if h is None:
                        return None
                    g = K.bind(h, name, sig)
                    r2, o2, ok2, _, _ = K.run_case(arena(), g, name, sig, sz, k, k2, sc)
                    if name == "nsumdiff_n":
                        r1 = r2 = None
                    if o1 != o2 or r1 != r2:
                        R.fail(tag, "%s %s %s contents %d/%d: kernel gives ret %r out %s, portable C gives ret %r out %s" % (
                            name, sz, sc, k, k2, r1, [(kd, hex(v)) for kd, ln, v in o1], r2, [(kd, hex(v)) for kd, ln, v in o2]))
                if not ok1:
                    R.fail(tag, "%s %s %s: wrote outside its destination" % (name, sz, sc))
                return (i, szt, sct)
            n = sz["n"]
            Ar = arena()
            if name in ("karaadd", "karasub"):
                # Karatsuba identity: rp = [xl*yl | xh*yh], tp = |xh-xl|*|yh-yl| ; karasub when the signs agree, karaadd otherwise -> rp = x*y
                n2 = n >> 1
                n3 = n - n2
                x = K.contents(n, k)
                y = K.contents(n, k + 3)
                xl, xh = x & al.ones(n2), x >> (64 * n2)
                yl, yh = y & al.ones(n2), y >> (64 * n2)
                dx, dy = xh - xl, yh - yl
                sub = (dx >= 0) == (dy >= 0)
                if (name == "karasub") != sub:
                    x, xl, xh = ((xl << (64 * n3)) | xh) if n2 == n3 else x, xl, xh
                    if n2 != n3:
                        return None
                    xl, xh = x & al.ones(n2), x >> (64 * n2)
                    dx = xh - xl
                    sub = (dx >= 0) == (dy >= 0)
                    if (name == "karasub") != sub:
                        return None
                t = abs(dx) * abs(dy)
                orp, otp = G_, G_ + 2 * n + G_
                end = otp + 2 * n3 + 2 + G_
                Ar.reset(end)
                Ar.put(orp, (xl * yl) | ((xh * yh) << (128 * n2)), 2 * n)
                Ar.put(otp, t, 2 * n3 + 2)
                f = getattr(kh(i), "__gmpn_" + name)
                f.restype, f.argtypes = None, [c_void_p, c_void_p, c_long]
                f(Ar.addr(orp), Ar.addr(otp), n)
                if Ar.get(orp, 2 * n) != x * y:
                    R.fail(tag, "%s n=%d: Karatsuba recomposition wrong for x=%x y=%x" % (name, n, x, y))
                if not Ar.untouched(end, [(orp, 2 * n), (otp, 2 * n3 + 2)]):
                    R.fail(tag, "%s n=%d: wrote outside rp/tp" % (name, n))
                return (i, n, k)
            if name in ("mul_2", "addmul_2"):
                u = K.contents(n, k)
                v = [al.ones(2), 1, (1 << 64) | 1, K.contents(2, 1)][k2]
                r0 = K.contents(n + 1, k + 5) if name == "addmul_2" else 0
                orp, ou, ov = G_, 2 * G_ + n + 2, 3 * G_ + 2 * n + 2
                end = ov + 2 + G_
                Ar.reset(end)
                Ar.put(ou, u, n)
                Ar.put(ov, v, 2)
                if name == "addmul_2":
                    Ar.put(orp, r0 & al.ones(n), n)
                f = getattr(kh(i), "__gmpn_" + name)
                f.restype, f.argtypes = c_uint64, [c_void_p, c_void_p, c_long, c_void_p]
                ret = f(Ar.addr(orp), Ar.addr(ou), n, Ar.addr(ov))
                tot = u * v + ((r0 & al.ones(n)) if name == "addmul_2" else 0)
                got = Ar.get(orp, n + 1) | (ret << (64 * (n + 1)))
                if got != tot:
                    R.fail(tag, "%s n=%d u=%x v=%x: got %x expected %x" % (name, n, u, v, got, tot))
                if Ar.get(ou, n) != u or Ar.get(ov, 2) != v or not Ar.untouched(end, [(orp, n + 1), (ou, n), (ov, 2)]):
                    R.fail(tag, "%s n=%d: source modified or wrote outside rp[0..n]" % (name, n))
                return (i, n, k, k2)
            if name == "redc_1":
                m = K.contents(n, k) | 1 | (1 << (64 * n - 1))
                t = (K.contents(2 * n, k + 2) % (m << (64 * n - 1))) if n else 0
                t %= (m * (1 << (64 * n)))
                Nd = (-pow(m, -1, B_)) % B_
                ocp, otp, omp = G_, 2 * G_ + n, 3 * G_ + 3 * n
                end = omp + n + G_
                Ar.reset(end)
                Ar.put(otp, t, 2 * n)
                Ar.put(omp, m, n)
                f = getattr(kh(i), "__gmpn_redc_1")
                f.restype, f.argtypes = None, [c_void_p, c_void_p, c_void_p, c_long, c_uint64]
                f(Ar.addr(ocp), Ar.addr(otp), Ar.addr(omp), n, Nd)
                got = Ar.get(ocp, n)
                exp = (t * pow(1 << (64 * n), -1, m)) % m
                if got % m != exp or got >= 2 * m:
                    R.fail(tag, "redc_1 n=%d: got %x, expected %x (mod m=%x)" % (n, got, exp, m))
                if Ar.get(omp, n) != m or not Ar.untouched(end, [(ocp, n), (otp, 2 * n), (omp, n)]):
                    R.fail(tag, "redc_1 n=%d: modulus modified or wrote outside" % n)
                return (i, n, k)
            if name in ("mod_1_1", "mod_1_2", "mod_1_3"):
                kk = int(name[-1])
                d = sc["d"]
                if (kk + 1) * (d - 1) > B_:
                    return None
                x = K.contents(n, k)
                db = 0
                for j in range(kk + 1):
                    db |= pow(B_, j + 1, d) << (64 * j)
                orr, ox, odb = G_, 2 * G_ + 2, 3 * G_ + 2 + n
                end = odb + kk + 1 + G_
                Ar.reset(end)
                Ar.put(ox, x, n)
                Ar.put(odb, db, kk + 1)
                f = getattr(kh(i), "__gmpn_" + name)
                f.restype, f.argtypes = None, [c_void_p, c_void_p, c_long, c_void_p]
                f(Ar.addr(orr), Ar.addr(ox), n, Ar.addr(odb))
                got = Ar.get(orr, 2)
                if got % d != x % d:
                    R.fail(tag, "%s n=%d d=%d x=%x: result %x is not congruent to x mod d" % (name, n, d, x, got))
                if Ar.get(ox, n) != x or Ar.get(odb, kk + 1) != db or not Ar.untouched(end, [(orr, 2), (ox, n), (odb, kk + 1)]):
                    R.fail(tag, "%s n=%d: source modified or wrote outside rem[0..1]" % (name, n))
                return (i, n, k, d)
            if name == "divexact_byfobm1":
                fdiv = sc["f"]
                if M_ % fdiv:
                    return None
                x = K.contents(n, k)
                oq, ox = G_, 2 * G_ + n
                end = ox + n + G_
                Ar.reset(end)
                Ar.put(ox, x, n)
                f = getattr(kh(i), "__gmpn_divexact_byfobm1")
                f.restype, f.argtypes = c_uint64, [c_void_p, c_void_p, c_long, c_uint64, c_uint64]
                ret = f(Ar.addr(oq), Ar.addr(ox), n, fdiv, M_ // fdiv)
                q = Ar.get(oq, n)
                if q * fdiv - ret * (1 << (64 * n)) != x or not (0 <= ret < fdiv):
                    R.fail(tag, "divexact_byfobm1 n=%d f=%d x=%x: q=%x ret=%d violates x = q*f - ret*B^n" % (n, fdiv, x, q, ret))
                if Ar.get(ox, n) != x or not Ar.untouched(end, [(oq, n), (ox, n)]):
                    R.fail(tag, "divexact_byfobm1 n=%d: source modified or wrote outside" % n)
                return (i, n, k, fdiv)
            return None

        sp.append(Space("kernels", list(range(len(kern))), k_cases, k_one,
                        "%d kernel files (%d routine names) under mpn/x86_64/**, each assembled alone: n=1..%d x content family x scalars vs portable C / definitions; not covered in isolation: %s; assembly failures: %d" % (
                            len(kern), len({k["name"] for k in kern}), N, skipped, len(idx["errors"]))))
        sp += battery_spaces("pin", 12 if quick else 2)
        return sp
    if variant == "rt":
        rt.set_vector(rt.floor_vector())
        ships = rt.ship_vectors()
        if quick:
            names = sorted(ships)
            # every shipped table, thinned battery
            for nm in names:
                sp += battery_spaces("rt", 64, cfgname="ship:" + nm, vector=ships[nm])
            sp += battery_spaces("rt", 16, cfgname="floor", vector=rt.floor_vector())
        else:
            for nm in sorted(ships):
                sp += battery_spaces("rt", 5, cfgname="ship:" + nm, vector=ships[nm])
            sp += battery_spaces("rt", 2, cfgname="floor", vector=rt.floor_vector())
        return sp
    # real rebuilds
    sp += battery_spaces(variant, 10 if quick else 2, cfgname=variant)
    if variant.startswith("alloca-"):
        # where TMP_FREE really frees (and the recording allocator poisons what is freed) the whole aliasing table runs unthinned: a result
        # that still reads a temporary after TMP_FREE - typically only on an aliased call - differs from the distinct-variable result
        from . import C05 as _c05
        for s_ in _c05.spaces(tier, "pin", seed):
            if s_.name == "alias_all_functions":
                sp.append(Space("%s/C05/%s" % (variant, s_.name), s_.blocks, s_.cases, s_.one, s_.doc))
    if variant == "fat":
        def f_cases(blk):
            yield (0,)

        def f_one(case, R):
            names, bad = fat_dispatch_check()
            if names is None:
                R.fail("fat", "fat build has no dispatch vector: %s" % bad)
                return None
            if bad:
                R.fail("fat", "dispatcher chose kernels of another CPU vendor family or stayed uninitialised: %s" % bad)
            R.extra["fat_dispatch"] = 1
            return tuple(names)
        sp.append(Space("fat/dispatch", [0], f_cases, f_one, "the fat dispatcher's 31 choices after initialisation belong to the running CPU's vendor family"))

        # the very FIRST dispatched call of a process goes through the slot's initialiser stub (fill the vector, then jump through "its
        # own" slot): one fresh process per slot, the slot's function called first and again after initialisation with the same operands
        from .. import fatfirst as FF

        def ff_cases(blk):
            yield (blk,)

        def ff_one(case, R):
            (slot,) = case
            import subprocess as sp_, json as js_
            root = os.path.dirname(os.path.dirname(os.path.dirname(os.path.abspath(__file__))))
            env_ = dict(os.environ)
            env_.pop("LD_PRELOAD", None)
            r = sp_.run([sys.executable, "-m", "mc.fatfirst", lib.META["so"], slot], cwd=root, env=env_, capture_output=True, text=True, timeout=120)
            if r.returncode != 0:
                R.fail("fat first call", "slot %s: the fresh process exited with %s: %s" % (slot, r.returncode, (r.stderr or "")[-300:]))
                return None
            d = js_.loads(r.stdout.strip().splitlines()[-1])
            if d["first"] != d["second"]:
                R.fail("fat first call", "slot %s: the first dispatched call of a fresh process gives a different result from the same call after initialisation" % slot)
            R.count("fat_first_call_processes", 1)
            return (slot, d["first"] == d["second"])

        sp.append(Space("fat/first_call_per_slot", list(FF.SLOTS), ff_cases, ff_one,
                        "one fresh process per cpuvec slot (%d of 31; %s need a precomputed inverse and are reached through their callers): the slot's function is the first "
                        "dispatched call (copyi/copyd on overlapping operands) and must agree with the same call repeated after initialisation" % (len(FF.SLOTS), ", ".join(FF.NOT_DRIVEN))))
    return sp


G_ = K.G
B_ = 1 << 64
M_ = B_ - 1
