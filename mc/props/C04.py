"""C04  No call sequence corrupts memory, breaks the allocator contract or a variable."""
import itertools, os, subprocess, ctypes, hashlib
from fractions import Fraction
from ctypes import c_void_p, c_long, c_ulong, c_int, c_size_t, c_char_p, addressof, string_at
from .. import lib, alphabet as al, api, build
from ..explore import Space

ID = "C04"
LEVEL = "model_checking"
RULE = ("explicit-state exploration of call histories on real objects: state = per object (value, allocation class, stale-limb poison); histories = "
        "(<= D structural operations per object) . (one API call), structural = the real lifecycle API (mpz_realloc2 tight/roomy/too small, "
        "_mpz_realloc, clear+init+set, init2+set, swap through a temporary, mpz_limbs_modify/finish) applied to every object, API call = every "
        "public mpz/mpq/mpf function parsed from the tree's own mpir.h over per-type argument alphabets (preconditions from the manual); every "
        "transition is executed on fresh real objects under two stale-memory poisons.  Invariants after every transition: I1 allocator contract "
        "(exact old size / free size, only installed-allocator blocks), I2 live blocks == blocks owned by live objects, I3 well-formedness of every "
        "object, I4 guard bytes intact (and AddressSanitizer silent in the asan / heap-TMP variants), I5 results identical from every allocation "
        "history and poison, I6 no direct malloc/free from inside libmpir while a custom allocator is installed (LD_PRELOAD wrapper). Plus "
        "lifecycle sequences (init/init2/inits/init_set*/clear/clears, randstate, mpz_array-free string returns) with block accounting, and stream "
        "inputs that end early. states = distinct (function, argument tuple, history, poison); transitions = real calls.")
RULE = RULE + (" " + "Later additions: every (function, alias partition) pair of the aliasing table checked for well-formedness; an --enable-alloca=debug pass in which every TMP block is visible to the block accounting; random fills into destinations of exactly the needed size for MT and 21 LC parameter sets; every token length 1..1200 through the stream readers; parsers fed one defect at every position incl. bytes >= 0x80; the explorer's global memory monitor runs after every case.")
ASSUMPTIONS = ["allocation failure is outside the property (the default handler aborts)", "functions the manual marks obsolete and raw-pointer accessors are driven by dedicated sequences, not the generic table",
               "AddressSanitizer cannot see inside assembly kernels: guard bytes around every block cover those"]
BUDGET = {"quick": 540, "thorough": 3000}
FPREC = 128


def passes(tier):
    # alloca-debug: every TMP_ALLOC is a heap block obtained through the installed allocator, so a path that misses its TMP_FREE
    # (or frees twice) shows in the block accounting at any operand size, not only above the 65536-byte alloca limit
    return ["pin", "asan", "rt", "alloca-debug"] if tier == "quick" else ["pin", "asan", "heaptmp-asan", "rt", "alloca-debug", "alloca-malloc"]


def load(variant):
    if variant == "rt":
        from .. import rt
        rt.load()
        rt.set_vector(rt.floor_vector())      # every algorithm regime is entered by operands of a few dozen limbs
    else:
        lib.load(variant)


def preload(variant):
    """extra LD_PRELOAD objects for a pass"""
    if variant != "pin":
        return []
    src = os.path.join(os.path.dirname(os.path.dirname(os.path.abspath(__file__))), "shim", "mallocwrap.c")
    h = hashlib.sha256(open(src, "rb").read()).hexdigest()[:12]
    os.makedirs(build.CACHE, exist_ok=True)
    out = os.path.join(build.CACHE, "mallocwrap-%s.so" % h)
    if not os.path.exists(out):
        tmp = out + ".%d.tmp" % os.getpid()
        subprocess.check_call(["gcc", "-O1", "-fPIC", "-shared", "-o", tmp, src])
        os.rename(tmp, out)
    return [out]


_MW = None


def mw():
    """handle of the malloc wrapper when preloaded, with the libmpir text range registered"""
    global _MW
    if _MW is None:
        _MW = False
        if "mallocwrap" in os.environ.get("LD_PRELOAD", ""):
            try:
                h = ctypes.CDLL(None)
                h.vmw_get_hits.restype = c_long
                h.vmw_set_range.argtypes = [c_ulong, c_ulong]
                lo = hi = None
                so = os.path.realpath(lib.META["so"])
                for line in open("/proc/self/maps"):
                    f = line.split()
                    if len(f) >= 6 and os.path.realpath(f[5]) == so and "x" in f[1]:
                        a, b = [int(x, 16) for x in f[0].split("-")]
                        lo = a if lo is None else min(lo, a)
                        hi = b if hi is None else max(hi, b)
                if lo is not None:
                    h.vmw_set_range(lo, hi)
                    _MW = h
            except Exception:
                _MW = False
    return _MW


def spaces(tier, variant, seed):
    P = c_void_p
    quick = tier == "quick"
    sp = []
    S = lib.S
    T = api.table()
    f_realloc2 = lib.fn("mpz_realloc2", None, P, c_ulong)
    f__realloc = lib.fn("_mpz_realloc", c_void_p, P, c_long)
    f_init = lib.fn("mpz_init", None, P)
    f_init2 = lib.fn("mpz_init2", None, P, c_ulong)
    f_clear = lib.fn("mpz_clear", None, P)
    f_set = lib.fn("mpz_set", None, P, P)
    f_swap = lib.fn("mpz_swap", None, P, P)
    f_lmod = lib.fn("mpz_limbs_modify", c_void_p, P, c_long)
    f_lfin = lib.fn("mpz_limbs_finish", None, P, c_long)
    pool = {}

    def env():
        if not pool:
            pool["Z"] = [lib.Z() for _ in range(8)]
            pool["Q"] = [lib.Q() for _ in range(6)]
            pool["F"] = [lib.F(FPREC) for _ in range(6)]
            pool["tmp"] = lib.Z()
        return pool

    # structural histories on one mpz (applied through the real API); each returns nothing and must preserve the value
    def h_none(z):
        pass

    def h_tight(z):
        f_realloc2(z.p, max(1, abs(z.get()).bit_length()))

    def h_roomy(z):
        f_realloc2(z.p, abs(z.get()).bit_length() + 64 * 5)

    def h_rawrealloc(z):
        f__realloc(z.p, al.nl(abs(z.get())) + 2)

    def h_reinit(z):
        t = env()["tmp"]
        f_set(t.p, z.p)
        f_clear(z.p)
        f_init(z.p)
        f_set(z.p, t.p)

    def h_init2(z):
        t = env()["tmp"]
        f_set(t.p, z.p)
        f_clear(z.p)
        f_init2(z.p, 64 * 9 + 1)
        f_set(z.p, t.p)

    def h_swap(z):
        t = env()["tmp"]
        t.set(0, alloc=1)
        f_swap(t.p, z.p)
        f_set(z.p, t.p)

    def h_limbs(z):
        n = al.nl(abs(z.get()))
        if n:
            neg = z.s.size < 0
            f_lmod(z.p, n + 3)
            f_lfin(z.p, -n if neg else n)

    def h_shrink_grow(z):
        v = z.get()
        f_realloc2(z.p, 1)          # too small: value becomes 0 (documented)
        z.set(v)

    H1 = [h_none, h_tight, h_roomy, h_rawrealloc, h_reinit, h_init2, h_swap, h_limbs, h_shrink_grow]
    if quick:
        HIST = [(h,) for h in H1]
    else:
        HIST = [(h,) for h in H1] + [(a, b) for a in H1[1:] for b in H1[1:] if a is not b]
    POISONS = (0x00, 0xA7) if quick else (0x00, 0xA7, 0xFF)

    def zptrs_of(kind, obj):
        if kind == "Z":
            return [obj]
        if kind == "Q":
            return None
        return []

    class QPart:
        """view of the numerator/denominator of a Q as a Z-like object for structural ops"""
        def __init__(self, p):
            self.p = p
            self.s = lib.MPZ.from_address(p)

        def get(self):
            return lib.zget(self.p)

        def set(self, v, alloc=None):
            lib._zset_at(self.p, v, alloc)

    JUNK = {"Z": -0x1F2E3D4C5B6A79880123, "Q": Fraction(-7, 9), "F": Fraction(-11, 4)}

    def run_call(R, fn, args, hist, poison, tag):
        e = env()
        lib.set_poison(poison)
        cnt = {"Z": 0, "Q": 0, "F": 0}
        objs = []
        cargs = []
        for (k, r), a in zip(fn.params, args):
            if k in "ZQF":
                o = e[k][cnt[k]]
                cnt[k] += 1
                v = a if a is not None else JUNK[k]
                if k == "Z":
                    o.set(v)
                    parts = [o]
                elif k == "Q":
                    o.set(v.numerator, v.denominator)
                    parts = [QPart(o.np), QPart(o.dp)]
                else:
                    o.set_frac(v)
                    parts = []
                for pz in parts:
                    for h in hist:
                        h(pz)
                    # stale limbs beyond the size carry the poison
                    s = pz.s
                    n = abs(s.size)
                    if s.alloc > n:
                        ctypes.memset(s.d + 8 * n, poison, 8 * (s.alloc - n))
                if k == "F":
                    s = o.s
                    n = abs(s.size)
                    if s.prec + 1 > n:
                        ctypes.memset(s.d + 8 * n, poison, 8 * (s.prec + 1 - n))
                objs.append((k, r, o, a))
                cargs.append(o.p)
            else:
                cargs.append(a)
        before = lib.live_blocks()
        hits0 = mw().vmw_get_hits() if mw() else 0
        ret = fn.f()(*cargs)
        # I1
        if lib.alloc_errors():
            R.fail(fn.name, "%s: allocator contract: %s" % (tag, lib.alloc_msg()))
            S.v_reset_errors()
        # I2
        after = lib.live_blocks()
        if after != before:
            R.fail(fn.name, "%s: live blocks %d -> %d across the call (leaked or dropped a block)" % (tag, before, after))
        # I4
        if S.v_check_guards():
            R.fail(fn.name, "%s: guard bytes damaged: %s" % (tag, lib.alloc_msg()))
            S.v_reset_errors()
        # I6
        if mw():
            h1 = mw().vmw_get_hits()
            if h1 != hits0:
                R.fail(fn.name, "%s: %d direct malloc/realloc/free call(s) from inside libmpir while a custom allocator is installed" % (tag, h1 - hits0))
        vals = []
        for k, r, o, a in objs:
            # I3
            m = o.wf(canonical=False) if k == "Q" else o.wf()
            if m:
                R.fail(fn.name, "%s: object ill-formed after the call: %s" % (tag, m))
            v = o.raw() if k == "Q" else o.get()
            vals.append(v)
            if r == "i":
                inp = (a.numerator, a.denominator) if k == "Q" else a
                if v != inp:
                    R.fail(fn.name, "%s: input operand modified" % tag)
        return (ret, tuple(vals))

    def argsets(fn, small):
        doms = []
        for i, (k, r) in enumerate(fn.params):
            if k in "ZQF" and r == "o":
                doms.append([None])
            else:
                doms.append(api.default_vals(k, fn.name, i, small))
        return doms

    names = sorted(n for n in T if api.SCALARS.get(n, 1) is not None)
    if variant != "pin":
        HIST_V = HIST[::2] if quick else HIST
    else:
        HIST_V = HIST

    def gen_cases(blk):
        name, part = blk
        fn = T[name]
        nin = sum(1 for k, r in fn.params if not (k in "ZQF" and r == "o"))
        small = nin >= 3 or (variant != "pin" and nin >= 2)
        doms = argsets(fn, small)
        i = 0
        for args in itertools.product(*doms):
            i += 1
            if i % 4 != part:
                continue
            if not api.precondition(fn, args):      # an exception here is a harness error and must surface, never skip cases silently
                continue
            yield (name, args)

    def gen_one(case, R):
        name, args = case
        fn = T[name]
        ref = None
        for hi, hist in enumerate(HIST_V):
            for poison in POISONS:
                res = run_call(R, fn, args, hist, poison, "args %s history %s poison %#x" % (_s(args), [h.__name__ for h in hist], poison))
                R.count("states", 1)
                if ref is None:
                    ref = res
                elif res != ref and not (isinstance(res[0], float) and res[0] != res[0]):
                    # I5: the value must not depend on allocation history or on stale limbs
                    if fn.name == "mpz_invert" and res[0] == 0 and ref[0] == 0:
                        continue
                    R.fail(fn.name, "args %s: result depends on allocation history/stale memory: history %s poison %#x gives %s, baseline %s" % (
                        _s(args), [h.__name__ for h in hist], poison, _s(res), _s(ref)))
        return (name, tuple(al.sgn(a) if isinstance(a, int) else 0 for a in args if a is not None)[:3])

    sp.append(Space("api_calls_under_histories", [(n, part) for n in names for part in range(4)], gen_cases, gen_one,
                    "%d public functions x argument alphabets x %d structural histories x %d poisons: I1-I6 after every call" % (len(names), len(HIST_V), len(POISONS))))

    # ---------------- lifecycle sequences with block accounting ----------------
    f_inits = lib.sym("mpz_inits")
    f_clears = lib.sym("mpz_clears")
    f_qinits = lib.sym("mpq_inits")
    f_qclears = lib.sym("mpq_clears")
    f_finits = lib.sym("mpf_inits")
    f_fclears = lib.sym("mpf_clears")
    f_set_str = lib.fn("mpz_set_str", c_int, P, c_char_p, c_int)
    f_iset_str = lib.fn("mpz_init_set_str", c_int, P, c_char_p, c_int)
    f_get_str = lib.fn("mpz_get_str", c_void_p, c_void_p, c_int, P)
    f_iset = lib.fn("mpz_init_set", None, P, P)
    f_iset_ui = lib.fn("mpz_init_set_ui", None, P, c_ulong)
    f_mul = lib.fn("mpz_mul", None, P, P, P)
    f_fac = lib.fn("mpz_fac_ui", None, P, c_ulong)
    f_qinit = lib.fn("mpq_init", None, P)
    f_qclear = lib.fn("mpq_clear", None, P)
    f_qset_str = lib.fn("mpq_set_str", c_int, P, c_char_p, c_int)
    f_finit2 = lib.fn("mpf_init2", None, P, c_ulong)
    f_fclear = lib.fn("mpf_clear", None, P)
    f_fset_prec = lib.fn("mpf_set_prec", None, P, c_ulong)
    f_fset_str = lib.fn("mpf_set_str", c_int, P, c_char_p, c_int)
    f_fiset_str = lib.fn("mpf_init_set_str", c_int, P, c_char_p, c_int)
    f_fget_str = lib.fn("mpf_get_str", c_void_p, c_void_p, c_void_p, c_int, c_size_t, P)
    f_rinit = lib.fn("gmp_randinit_default", None, P)
    f_rinit_lc = lib.fn("gmp_randinit_lc_2exp_size", c_int, P, c_ulong)
    f_rset = lib.fn("gmp_randinit_set", None, P, P)
    f_rseed = lib.fn("gmp_randseed_ui", None, P, c_ulong)
    f_rclear = lib.fn("gmp_randclear", None, P)
    f_urandomb = lib.fn("mpz_urandomb", None, P, P, c_ulong)

    LOPS = ["init", "init2_0", "init2_big", "iset", "iset_ui", "iset_str", "iset_str_bad", "inits3", "q", "q_str", "f", "f_prec", "f_str", "f_str_bad", "rand", "rand_lc", "rand_copy", "str_alloc", "fstr_alloc", "work"]

    def lc_cases(blk):
        a = blk
        for b in range(len(LOPS)):
            if quick:
                yield (a, b)
            else:
                for c in range(len(LOPS)):
                    yield (a, b, c)

    def lc_one(case, R):
        base = lib.live_blocks()
        live = []           # (kind, storage)
        for oi in case:
            op = LOPS[oi]
            if op in ("init", "init2_0", "init2_big", "iset", "iset_ui", "iset_str", "iset_str_bad"):
                st = lib.MPZ()
                p = addressof(st)
                if op == "init":
                    f_init(p)
                elif op == "init2_0":
                    f_init2(p, 0)
                elif op == "init2_big":
                    f_init2(p, 64 * 70 + 3)
                elif op == "iset":
                    src = env()["Z"][0]
                    src.set(-(1 << 200) - 5)
                    f_iset(p, src.p)
                elif op == "iset_ui":
                    f_iset_ui(p, 12345)
                elif op == "iset_str":
                    if f_iset_str(p, b"-123456789012345678901234567890123456789", 10) != 0:
                        R.fail("mpz_init_set_str", "valid string rejected")
                else:
                    if f_iset_str(p, b"12x45", 10) != -1:
                        R.fail("mpz_init_set_str", "invalid string accepted")
                m = lib._zwf_at(p)
                if m:
                    R.fail("mpz_" + op, "ill-formed after %s: %s" % (op, m))
                live.append(("z", st))
            elif op == "inits3":
                a, b, c = lib.MPZ(), lib.MPZ(), lib.MPZ()
                f_inits(c_void_p(addressof(a)), c_void_p(addressof(b)), c_void_p(addressof(c)), c_void_p(0))
                f_mul(addressof(a), addressof(b), addressof(c))
                live.append(("z3", (a, b, c)))
            elif op in ("q", "q_str"):
                st = lib.MPQ()
                f_qinit(addressof(st))
                if op == "q_str":
                    if f_qset_str(addressof(st), b"-123456789012345678901234567890/98765432109876543211", 10) != 0:
                        R.fail("mpq_set_str", "valid string rejected")
                    if f_qset_str(addressof(st), b"12/3x", 10) != -1:
                        R.fail("mpq_set_str", "invalid string accepted")
                live.append(("q", st))
            elif op in ("f", "f_prec", "f_str", "f_str_bad"):
                st = lib.MPF()
                p = addressof(st)
                if op == "f_str":
                    lib.fn("mpf_set_default_prec", None, c_ulong)(128)
                    if f_fiset_str(p, b"-1.25e3", 10) != 0:
                        R.fail("mpf_init_set_str", "valid string rejected")
                elif op == "f_str_bad":
                    if f_fiset_str(p, b"1.2.3", 10) != -1:
                        R.fail("mpf_init_set_str", "invalid string accepted")
                else:
                    f_finit2(p, 200)
                    if op == "f_prec":
                        f_fset_prec(p, 64)
                        f_fset_prec(p, 1000)
                        f_fset_str(p, b"3.25", 10)
                        f_fset_prec(p, 128)
                live.append(("f", st))
            elif op in ("rand", "rand_lc", "rand_copy"):
                st = (ctypes.c_char * 32)()
                p = addressof(st)
                if op == "rand":
                    f_rinit(p)
                elif op == "rand_lc":
                    if not f_rinit_lc(p, 64):
                        R.fail("gmp_randinit_lc_2exp_size", "size 64 refused")
                else:
                    t = (ctypes.c_char * 32)()
                    f_rinit(addressof(t))
                    f_rseed(addressof(t), 77)
                    f_rset(p, addressof(t))
                    f_rclear(addressof(t))
                f_rseed(p, 5)
                z = env()["Z"][1]
                f_urandomb(z.p, p, 300)
                live.append(("r", st))
            elif op == "str_alloc":
                z = env()["Z"][2]
                z.set(-(10 ** 50))
                ptr = f_get_str(None, 10, z.p)
                s = string_at(ptr)
                if S.v_block_size(ptr) != len(s) + 1:
                    R.fail("mpz_get_str", "allocated block %d bytes for string length %d" % (S.v_block_size(ptr), len(s)))
                S.v_free(ptr, len(s) + 1)
            elif op == "fstr_alloc":
                f = env()["F"][0]
                f.set_frac(Fraction(-12345, 8))
                ex = c_long(0)
                ptr = f_fget_str(None, ctypes.byref(ex), 10, 0, f.p)
                s = string_at(ptr)
                if S.v_block_size(ptr) != len(s) + 1:
                    R.fail("mpf_get_str", "allocated block %d bytes for string length %d" % (S.v_block_size(ptr), len(s)))
                S.v_free(ptr, len(s) + 1)
            elif op == "work":
                z = env()["Z"][3]
                f_fac(z.p, 300)
                f_mul(z.p, z.p, z.p)
            if lib.alloc_errors():
                R.fail("lifecycle", "after %s: allocator contract: %s" % (op, lib.alloc_msg()))
                S.v_reset_errors()
            if S.v_check_guards():
                R.fail("lifecycle", "after %s: guard bytes damaged" % op)
                S.v_reset_errors()
        # clear everything in reverse order; all blocks must be returned
        for kind, st in reversed(live):
            if kind == "z":
                f_clear(addressof(st))
            elif kind == "z3":
                f_clears(c_void_p(addressof(st[0])), c_void_p(addressof(st[1])), c_void_p(addressof(st[2])), c_void_p(0))
            elif kind == "q":
                f_qclear(addressof(st))
            elif kind == "f":
                f_fclear(addressof(st))
            else:
                f_rclear(addressof(st))
        if lib.alloc_errors():
            R.fail("lifecycle", "at clear: allocator contract: %s (sequence %s)" % (lib.alloc_msg(), [LOPS[i] for i in case]))
            S.v_reset_errors()
        if lib.live_blocks() != base:
            R.fail("lifecycle", "sequence %s: %d block(s) still held after every object was cleared" % ([LOPS[i] for i in case], lib.live_blocks() - base))
        R.count("states", len(case))
        return tuple(case)

    sp.append(Space("lifecycle_sequences", list(range(len(LOPS))), lc_cases, lc_one,
                    "every sequence of %d lifecycle operations (init, init2, init_set*, inits/clears, mpq/mpf init and parse incl. rejected strings, set_prec, randstate init/copy/seed, allocated strings, a big computation) then clear: allocator contract and zero blocks held" % (2 if quick else 3)))

    # ---------------- raw limb access protocol, read-only initialisation, mpz_array_init ----------------
    f_lwrite = lib.fn("mpz_limbs_write", c_void_p, P, c_long)
    f_lread = lib.fn("mpz_limbs_read", c_void_p, P)
    f_roinit = lib.fn("mpz_roinit_n", c_void_p, P, c_void_p, c_long)
    f_getlimbn = lib.fn("mpz_getlimbn", c_ulong, P, c_long)
    f_size = lib.fn("mpz_size", c_size_t, P)
    f_add = lib.fn("mpz_add", None, P, P, P)
    LIMBV = [0, 1, al.M, al.M << 64, (1 << 128) + 1, al.PAT(5)["dense"], 1 << 320, al.ones(7), (al.ones(3) << 192)]

    def lb_cases(blk):
        i = blk
        for n in (1, 2, 3, 5, 8, 12):
            for neg in (0, 1):
                for start_alloc in (1, 4, 20):
                    yield (i, n, neg, start_alloc)

    def lb_one(case, R):
        i, n, neg, start_alloc = case
        v = LIMBV[i] & al.ones(n)
        e = env()
        z, w = e["Z"][0], e["Z"][1]
        before = lib.live_blocks()
        z.set(-99, alloc=start_alloc)
        # write protocol: ask for n limbs, store them, finish with the signed size
        p_ = f_lwrite(z.p, n)
        if z.s.alloc < n or S.v_block_size(p_) != z.s.alloc * 8:
            R.fail("mpz_limbs_write", "asked for %d limbs from alloc %d: alloc field %d, block %d bytes" % (n, start_alloc, z.s.alloc, S.v_block_size(p_)))
        ctypes.memmove(p_, v.to_bytes(8 * n, "little"), 8 * n)
        vn = al.nl(v)
        f_lfin(z.p, -n if neg else n)
        ev = -v if neg else v
        if z.get() != ev or z.wf():
            R.fail("mpz_limbs_finish", "n=%d value %x neg %d: object holds %x (%s)" % (n, v, neg, z.get(), z.wf()))
        # modify protocol keeps the old magnitude and may grow
        p2 = f_lmod(z.p, n + 3)
        if int.from_bytes(string_at(p2, 8 * vn), "little") != v if vn else False:
            R.fail("mpz_limbs_modify", "old limbs not preserved when growing to %d" % (n + 3))
        if z.s.alloc < n + 3:
            R.fail("mpz_limbs_modify", "alloc %d < %d requested" % (z.s.alloc, n + 3))
        f_lfin(z.p, -vn if neg else vn)
        if z.get() != ev or z.wf():
            R.fail("mpz_limbs_modify", "value changed by modify/finish: %x" % z.get())
        # read access, getlimbn, size
        pr = f_lread(z.p)
        if vn and int.from_bytes(string_at(pr, 8 * vn), "little") != v:
            R.fail("mpz_limbs_read", "pointer does not show the value")
        if f_size(z.p) != vn:
            R.fail("mpz_size", "%d expected %d" % (f_size(z.p), vn))
        for k in (0, vn - 1, vn, vn + 5, -1):
            ex = (v >> (64 * k)) & al.M if 0 <= k < vn else 0
            if f_getlimbn(z.p, k) != ex:
                R.fail("mpz_getlimbn", "limb %d of %x: %x expected %x" % (k, v, f_getlimbn(z.p, k), ex))
        # read-only view over caller memory (size given un-normalised: high zero limbs allowed)
        arr = (ctypes.c_uint64 * (n + 1))(*[(v >> (64 * k)) & al.M for k in range(n)], 0)
        ro = lib.MPZ()
        r = f_roinit(addressof(ro), addressof(arr), -n if neg else n)
        if r != addressof(ro) or lib.zget(addressof(ro)) != ev:
            R.fail("mpz_roinit_n", "n=%d value %x: view holds %x" % (n, v, lib.zget(addressof(ro))))
        top = abs(ro.size)
        if top and arr[top - 1] == 0:
            R.fail("mpz_roinit_n", "size %d not normalised" % ro.size)
        w.set(5)
        f_add(w.p, addressof(ro), w.p)
        if w.get() != ev + 5 or bytes(arr)[:8 * n] != v.to_bytes(8 * n, "little"):
            R.fail("mpz_roinit_n", "using the view as an input gave %x or modified the caller's limbs" % w.get())
        if lib.live_blocks() != before or lib.alloc_errors() or S.v_check_guards():
            R.fail("limbs protocol", "blocks %d -> %d, %s" % (before, lib.live_blocks(), lib.alloc_msg()))
            S.v_reset_errors()
        R.count("states", 4)
        return (i, n, neg, start_alloc)

    if "asan" in variant:
        # the cross-property arithmetic battery (C01-C03, C06-C10, C16 at small scope) under AddressSanitizer: every TMP_ALLOC (alloca is
        # instrumented; heap blocks in the malloc-reentrant variant) and every destination gets a red zone, so a scratch estimate or a
        # destination that is one limb too small anywhere in the arithmetic code is a violation here even when the value stays right
        from .C14 import battery_spaces
        sp += battery_spaces(variant, 20 if quick else 4, cfgname=variant)

    # ---------------- random fills into destinations of exactly the needed size ----------------
    f_r_mt = lib.fn("gmp_randinit_mt", None, P)
    f_r_lc = lib.fn("gmp_randinit_lc_2exp", None, P, P, c_ulong, c_ulong)
    f_r_seed_ui = lib.fn("gmp_randseed_ui", None, P, c_ulong)
    f_rrandomb = lib.fn("mpz_rrandomb", None, P, P, c_ulong)
    f_urandomm = lib.fn("mpz_urandomm", None, P, P, P)
    f_f_urandomb = lib.fn("mpf_urandomb", None, P, P, c_ulong)
    f_ub_ui = lib.fn("gmp_urandomb_ui", c_ulong, P, c_ulong)
    f_um_ui = lib.fn("gmp_urandomm_ui", c_ulong, P, c_ulong)
    f_n_urandomb = lib.fn("mpn_urandomb", None, P, P, c_ulong)
    f_n_urandomm = lib.fn("mpn_urandomm", None, P, P, P, c_long)
    f_n_randomb = lib.fn("mpn_randomb", None, P, P, c_long)
    f_n_rrandom = lib.fn("mpn_rrandom", None, P, P, c_long)
    from .. import mpnops as mo
    RK = [("mt",)] + [("lc", a, c, m2) for (a, c, m2) in ((5, 1, 16), (69069, 1, 24), (1103515245, 12345, 34), (6364136223846793005, 1442695040888963407, 64),
                                                            (1180591620717411303429, 12345, 100), ((1 << 127) + 45, 7, 128), ((1 << 190) + 5, 9, 200), (13, 3, 66))] \
         + [("lcs", s_) for s_ in (1, 16, 17, 20, 28, 32, 33, 40, 50, 64, 65, 100, 128)]
    RNB = [1, 31, 32, 33, 63, 64, 65, 100, 127, 128, 129, 192, 256, 320, 640, 1000, 1024]
    _rpool = {}

    def rf_cases(blk):
        ki = blk
        for n in RNB:
            for pre in (0, 1):
                yield (ki, n, pre)

    def rf_one(case, R):
        ki, n, pre = case
        kind = RK[ki]
        e = env()
        st = (ctypes.c_char * 64)()
        p = addressof(st)
        e["tmp"].set(1 << 200)
        e["Z"][0].set(0, alloc=1)
        e["Z"][1].set(0, alloc=1)
        base = lib.live_blocks()
        if kind[0] == "mt":
            f_r_mt(p)
        elif kind[0] == "lc":
            e["tmp"].set(kind[1])
            f_r_lc(p, e["tmp"].p, kind[2], kind[3])
        else:
            if not f_rinit_lc(p, kind[1]):
                return None
        f_r_seed_ui(p, 12345 + n)
        tag = "%s n=%d pre=%d" % (kind, n, pre)
        nl_ = (n + 63) // 64
        z, z1 = e["Z"][0], e["Z"][1]
        big = (1 << (64 * nl_)) - 1

        def chk(name):
            if lib.alloc_errors() or S.v_check_guards():
                R.fail(name, "%s: %s" % (tag, lib.alloc_msg()))
                S.v_reset_errors()
        for rep in range(3):
            # destination holding exactly nl_ limbs (pre=1: all ones, so the call does not reallocate) or a single limb (it allocates exactly what it needs)
            z.set(big if pre else -1, alloc=nl_ if pre else 1)
            f_urandomb(z.p, p, n)
            if z.wf() or not (0 <= z.get() < (1 << n)):
                R.fail("mpz_urandomb", "%s: %x %s" % (tag, z.get(), z.wf()))
            chk("mpz_urandomb")
            z.set(big if pre else -1, alloc=nl_ if pre else 1)
            f_rrandomb(z.p, p, n)
            if z.wf() or not (0 <= z.get() < (1 << n)):
                R.fail("mpz_rrandomb", "%s: %x %s" % (tag, z.get(), z.wf()))
            chk("mpz_rrandomb")
            for m in ((1 << n), (1 << n) - 1, (1 << (n - 1)) + 1, 1 << (64 * nl_)):
                z1.set(m, alloc=al.nl(m))
                z.set(big if pre else -1, alloc=nl_ if pre else 1)
                f_urandomm(z.p, p, z1.p)
                if z.wf() or not (0 <= z.get() < m) or z1.get() != m:
                    R.fail("mpz_urandomm", "%s: modulus %x gave %x %s" % (tag, m, z.get(), z.wf()))
                chk("mpz_urandomm")
            if n <= 64:
                v = f_ub_ui(p, n)
                if not 0 <= v < (1 << n):
                    R.fail("gmp_urandomb_ui", "%s: %x" % (tag, v))
                v = f_um_ui(p, (1 << n) - 1 if n > 1 else 1)
                chk("gmp_urandomb_ui")
            f = e["F"][0]
            f.set_frac(Fraction(-((1 << 191) + (1 << 64) + 1), 4) if pre else Fraction(0))
            f_f_urandomb(f.p, p, n)
            if f.wf() or not (0 <= f.get() < 1):
                R.fail("mpf_urandomb", "%s: %s %s" % (tag, float(f.get()), f.wf()))
            chk("mpf_urandomb")
            # mpn level: arena with canary limbs right after the destination
            A = _rpool.get("A")
            if A is None:
                A = _rpool["A"] = mo.Arena(128)
            G = mo.G
            for name in ("mpn_urandomb", "mpn_randomb", "mpn_rrandom", "mpn_urandomm"):
                if name == "mpn_urandomm":
                    mval = (1 << n) | 1 if n % 64 else (1 << (n - 1)) | 1
                    mval2 = 1 << (64 * (nl_ - 1)) if nl_ > 1 else 1
                    for mv in (mval, mval2):
                        ml = al.nl(mv)
                        tot = 2 * ml + 3 * G
                        A.reset(tot)
                        if pre:
                            A.put(G, (1 << (64 * ml)) - 1, ml)
                        A.put(2 * G + ml, mv, ml)
                        f_n_urandomm(A.addr(G), p, A.addr(2 * G + ml), ml)
                        v = A.get(G, ml)
                        if not (0 <= v < mv) or A.get(2 * G + ml, ml) != mv:
                            R.fail(name, "%s: modulus %x gave %x" % (tag, mv, v))
                        if not A.untouched(tot, [(G, ml), (2 * G + ml, ml)]):
                            R.fail(name, "%s: modulus %x: wrote outside {rp,n}" % (tag, mv))
                    continue
                tot = nl_ + 2 * G
                A.reset(tot)
                if pre:
                    A.put(G, big, nl_)
                if name == "mpn_urandomb":
                    f_n_urandomb(A.addr(G), p, n)
                    v = A.get(G, nl_)
                    ok = 0 <= v < (1 << n)
                else:
                    (f_n_randomb if name == "mpn_randomb" else f_n_rrandom)(A.addr(G), p, nl_)
                    v = A.get(G, nl_)
                    ok = (v >> (64 * (nl_ - 1))) != 0
                if not ok:
                    R.fail(name, "%s: %x" % (tag, v))
                if not A.untouched(tot, [(G, nl_)]):
                    R.fail(name, "%s: wrote outside {rp,n}" % tag)
            chk("mpn random")
        f_rclear(p)
        z.set(0, alloc=1)
        z1.set(0, alloc=1)
        if lib.live_blocks() != base:
            R.fail("random functions", "%s: blocks %d -> %d after gmp_randclear" % (tag, base, lib.live_blocks()))
        R.count("states", 3)
        return (ki, n, pre)

    sp.append(Space("random_fill_exact_destinations", list(range(len(RK))), rf_cases, rf_one,
                    "mpz_urandomb/rrandomb/urandomm, gmp_urandomb_ui/urandomm_ui, mpf_urandomb, mpn_urandomb/urandomm/randomb/rrandom for MT, 8 lc_2exp parameter sets "
                    "(chunk sizes 8..100 bits; m2exp = 8 is left out: its whole period is 1024 bits, so mpz_urandomm's rejection loop sees the same draw for ever) and 13 lc_2exp_size sizes x 17 bit counts x destinations holding exactly the limbs needed (guard bytes / canary limbs right behind them)"))

    sp.append(Space("limbs_protocol", list(range(len(LIMBV))), lb_cases, lb_one,
                    "mpz_limbs_write/finish, mpz_limbs_modify (growing), mpz_limbs_read, mpz_getlimbn, mpz_size, mpz_roinit_n (un-normalised size, used as an input): values, allocation field == block size, no block lost"))

    f_inp_raw = lib.fn("mpz_inp_raw", c_size_t, P, c_void_p)
    f_inp_str = lib.fn("mpz_inp_str", c_size_t, P, c_void_p, c_int)
    f_qinp = lib.fn("mpq_inp_str", c_size_t, P, c_void_p, c_int)
    f_finp = lib.fn("mpf_inp_str", c_size_t, P, c_void_p, c_int)
    f_mpf_urandomb = lib.fn("mpf_urandomb", None, P, P, c_ulong)
    f_add_ui = lib.fn("mpz_add_ui", None, P, P, c_ulong)
    st_pool = {}

    def stream():
        if "vs" not in st_pool:
            st_pool["vs"] = S.v_stream_new()
        return st_pool["vs"]

    # ---------------- parsers fed strings with one defect at every position: no leak, destination well formed ----------------
    g_sscanf = lib.sym("gmp_sscanf")
    g_sscanf.restype = c_int
    TEMPLATES = ["-123456789012345678901234567890", "12/7", "-1234567890123456789012345/98765432109876543210987", "0x1f/0x10", "1.5e3", "-0.25@-2", "  42", "7/ 3", "ff/10"]
    BADCH = ["y", "/", " ", "-", ".", "@", "", "+", "\x01", "9", "\x80", "\x9a", "\xff"]      # bytes >= 0x80: a signed-char index into the digit table reads before it (ASan pass)

    def pr_cases(blk):
        ti = blk
        t = TEMPLATES[ti]
        for pos in range(len(t) + 1):
            for bi in range(len(BADCH)):
                for mode in (0, 1):              # 0 = insert, 1 = replace
                    if mode == 1 and pos == len(t):
                        continue
                    yield (ti, pos, bi, mode)
        yield (ti, -1, 0, 0)

    def pr_one(case, R):
        ti, pos, bi, mode = case
        t = TEMPLATES[ti]
        if pos < 0:
            s_ = t
        else:
            s_ = t[:pos] + BADCH[bi] + (t[pos + 1:] if mode else t[pos:])
        bs = s_.encode("latin1")
        if b"\0" in bs:
            return None
        e = env()
        vs = stream()
        base = 0 if "0x" in t else (16 if t.startswith("ff") else 10)
        outcomes = []
        for fn_name in ("mpz_set_str", "mpz_init_set_str", "mpq_set_str", "mpf_set_str", "mpf_init_set_str", "sscanf_Z", "sscanf_Q", "sscanf_F", "mpz_inp_str", "mpq_inp_str", "mpf_inp_str"):
            before = lib.live_blocks()
            z = lib.Z(5)
            q = lib.Q(Fraction(5, 3))
            f = lib.F(128)
            f.set_frac(Fraction(5, 4))
            if fn_name == "mpz_set_str":
                r = f_set_str(z.p, bs, base)
            elif fn_name == "mpz_init_set_str":
                raw = lib.MPZ()
                r = f_iset_str(addressof(raw), bs, base)
                m = lib._zwf_at(addressof(raw))
                if m:
                    R.fail(fn_name, "%r: object ill-formed: %s" % (s_, m))
                f_clear(addressof(raw))
            elif fn_name == "mpq_set_str":
                r = f_qset_str(q.p, bs, base)
            elif fn_name == "mpf_set_str":
                r = f_fset_str(f.p, bs, base or 10)
            elif fn_name == "mpf_init_set_str":
                raw = lib.MPF()
                r = f_fiset_str(addressof(raw), bs, base or 10)
                f_fclear(addressof(raw))
            elif fn_name.startswith("sscanf"):
                conv = {"Z": b"%Zi", "Q": b"%Qi", "F": b"%Ff"}[fn_name[-1]]
                tgt = {"Z": z.p, "Q": q.p, "F": f.p}[fn_name[-1]]
                r = g_sscanf(bs, conv, c_void_p(tgt))
            else:
                fp = S.v_open_read(vs, bs, len(bs), -1, 0, 0, 0)
                if fn_name == "mpz_inp_str":
                    r = f_inp_str(z.p, fp, base)
                elif fn_name == "mpq_inp_str":
                    r = f_qinp(q.p, fp, base)
                else:
                    r = f_finp(f.p, fp, base or 10)
                S.v_fclose(fp)
            for o, nm in ((z, "mpz"), (f, "mpf")):
                m = o.wf()
                if m:
                    R.fail(fn_name, "%r: %s destination ill-formed afterwards: %s" % (s_, nm, m))
            m = q.wf(canonical=False)
            if m:
                R.fail(fn_name, "%r: mpq destination ill-formed afterwards: %s" % (s_, m))
            z.clear(); z.s.d = None
            q.clear(); q.s.num.d = None
            f.clear(); f.s.d = None
            if lib.alloc_errors():
                R.fail(fn_name, "%r: allocator contract: %s" % (s_, lib.alloc_msg()))
                S.v_reset_errors()
            if lib.live_blocks() != before:
                R.fail(fn_name, "%r (returned %d): %d block(s) still held after the objects were cleared" % (s_, r, lib.live_blocks() - before))
            if S.v_check_guards():
                R.fail(fn_name, "%r: guard bytes damaged" % s_)
                S.v_reset_errors()
            outcomes.append(r if r in (0, -1) else 1)
        R.count("states", 11)
        return (ti, mode, bi, tuple(outcomes))

    sp.append(Space("parsers_with_one_defect", list(range(len(TEMPLATES))), pr_cases, pr_one,
                    "mpz/mpq/mpf set_str, init_set_str, inp_str and gmp_sscanf on %d templates with one of %d characters inserted or substituted at EVERY position (bad numerator, bad denominator, empty parts, stray signs/points/exponent marks): no block lost, allocator contract, destinations well formed" % (len(TEMPLATES), len(BADCH))))

    # ---------------- stream inputs that end early / mpf_urandomb: objects must stay well formed ----------------

    RAWV = [0, 1, -1, 255, -65536, (1 << 64) - 1, -(1 << 64), al.PAT(3)["dense"], -(1 << 200) - 1]

    def tr_cases(blk):
        kind = blk
        if kind == "raw":
            for v in RAWV:
                a = abs(v)
                n = (a.bit_length() + 7) // 8
                for k in range(0, 4 + n + 1):
                    for aserr in (0, 1):
                        yield ("raw", v, k, aserr)
        elif kind == "txt":
            for s in (b"-123456789012345678901234567890", b"12/345", b"-1.5e10", b"ff@-3"):
                for k in range(0, len(s) + 1):
                    for ty in "zqf":
                        yield ("txt", s.decode(), k, ty)
        else:
            for nbits in (1, 2, 3, 64, 65, 128, 129, 200):
                for sd in range(24):
                    yield ("furb", nbits, sd, 0)

    def tr_one(case, R):
        kind, a, k, x = case
        e = env()
        vs = stream()
        if kind == "raw":
            v = a
            mag = abs(v)
            n = (mag.bit_length() + 7) // 8
            data = ((-n if v < 0 else n) & 0xFFFFFFFF).to_bytes(4, "big") + mag.to_bytes(n, "big")
            z = e["Z"][0]
            z.set(0x5555AAAA5555AAAA5555, alloc=2)
            fp = S.v_open_read(vs, data, len(data), k, x, 0, 0)
            r = f_inp_raw(z.p, fp)
            S.v_fclose(fp)
            m = z.wf()
            if m:
                R.fail("mpz_inp_raw", "stream of %d bytes ending after %d (%s): returned %d and left the destination ill-formed: %s" % (len(data), k, "error" if x else "EOF", r, m))
            else:
                # the object must be usable: arithmetic on it obeys the format
                f_add_ui(z.p, z.p, 1)
                if z.wf():
                    R.fail("mpz_inp_raw", "destination unusable after a short read")
            if k >= len(data) and (r != len(data) or z.get() != v + 1):
                R.fail("mpz_inp_raw", "complete stream: returned %d value %x" % (r, z.get()))
            R.count("states", 1)
            return (kind, k < 4, k >= len(data), x)
        if kind == "txt":
            data = a.encode()
            ty = x
            if ty == "z":
                o = e["Z"][0]
                o.set(7)
                f = lambda fp: f_inp_str(o.p, fp, 10 if "@" not in a else 16)
            elif ty == "q":
                o = e["Q"][0]
                o.set(7, 2)
                f = lambda fp: f_qinp(o.p, fp, 10 if "@" not in a else 16)
            else:
                o = e["F"][0]
                o.set_frac(Fraction(7, 2))
                f = lambda fp: f_finp(o.p, fp, 10 if "@" not in a else 16)
            before = lib.live_blocks()
            fp = S.v_open_read(vs, data, len(data), k, 0, 0, 0)
            r = f(fp)
            S.v_fclose(fp)
            m = o.wf(canonical=False) if ty == "q" else o.wf()
            if m:
                R.fail("mp%s_inp_str" % ty, "input %r cut after %d bytes: returned %d, destination ill-formed: %s" % (a, k, r, m))
            if lib.live_blocks() != before or lib.alloc_errors():
                R.fail("mp%s_inp_str" % ty, "input %r cut after %d bytes: blocks %d -> %d, %s" % (a, k, before, lib.live_blocks(), lib.alloc_msg()))
                S.v_reset_errors()
            R.count("states", 1)
            return (kind, ty, k == len(data), r == 0)
        nbits, sd = a, k
        stt = (ctypes.c_char * 32)()
        f_rinit(addressof(stt))
        f_rseed(addressof(stt), sd)
        f = e["F"][1]
        out = None
        for _ in range(40):
            f_mpf_urandomb(f.p, addressof(stt), nbits)
            m = f.wf()
            if m:
                R.fail("mpf_urandomb", "nbits=%d seed %d: result violates the mpf format: %s" % (nbits, sd, m))
                break
        f_rclear(addressof(stt))
        R.count("states", 40)
        return (kind, nbits)

    # aliased calls are call sequences too: every (function, alias partition) pair of C05's table is executed here for what C04 states -
    # each object well formed afterwards (size <= alloc, alloc field == block size, canonical zero), allocator contract, guard bytes
    # (C05's own value comparison runs as well; a swap of limb pointers without the alloc fields only shows on aliased calls)
    if variant in ("pin", "alloca-debug"):
        from . import C05 as _c05
        for s_ in _c05.spaces(tier, "pin", seed):
            if s_.name == "alias_all_functions":
                sp.append(Space("aliased_calls_well_formed", s_.blocks if not quick else s_.blocks, s_.cases, s_.one,
                                "every (function, alias partition) pair (the C05 table): objects well formed after the call, allocator contract, guard bytes"))

    # text readers grow their token buffer by reallocation: every token length 1..N (each growth boundary is some length), followed by
    # EOF / white space / a non-digit, read under the recording allocator (exact-size contract, guard bytes right behind every block)
    TOKN = 1200 if quick else 4200

    def tk_cases(blk):
        ty, lo = blk
        for ln in range(lo, min(lo + 50, TOKN + 1)):
            for term in (0, 1, 2):
                yield (ty, ln, term)

    def tk_one(case, R):
        ty, ln, term = case
        e = env()
        vs = stream()
        digs = "".join("123456789"[(i * 7 + ln) % 9] for i in range(ln))
        if ty == "q" and ln >= 3:
            digs = digs[:ln // 2] + "/" + digs[ln // 2 + 1:]
        if ty == "f" and ln >= 5:
            digs = digs[:ln // 3] + "." + digs[ln // 3 + 1:ln - 3] + "e12"
        data = (digs + ["", " 5", ")"][term]).encode()
        before = lib.live_blocks()
        if ty == "z":
            o = e["Z"][0]
            o.set(7, alloc=1)
            fp = S.v_open_read(vs, data, len(data), -1, 0, 0, 0)
            r = f_inp_str(o.p, fp, 10)
            val = o.get()
            exp = int(digs)
        elif ty == "q":
            o = e["Q"][0]
            o.set(7, 2)
            fp = S.v_open_read(vs, data, len(data), -1, 0, 0, 0)
            r = f_qinp(o.p, fp, 10)
            val = o.raw()
            exp = (int(digs.split("/")[0]), int(digs.split("/")[1])) if "/" in digs else (int(digs), 1)
        else:
            o = e["F"][0]
            o.set_frac(Fraction(7, 2))
            fp = S.v_open_read(vs, data, len(data), -1, 0, 0, 0)
            r = f_finp(o.p, fp, 10)
            val = exp = None
        S.v_fclose(fp)
        nm = "mp%s_inp_str" % ty
        # (mpf_inp_str delimits its token by white space only, so a following ')' belongs to the token; what mpf_set_str then makes of
        # it is not asserted here - the memory discipline below is)
        if r != len(digs) and not (ty == "f" and term == 2):
            R.fail(nm, "token of %d characters (terminator %d): returned %d" % (len(digs), term, r))
        if exp is not None and val != exp:
            R.fail(nm, "token of %d characters: wrong value" % len(digs))
        m = o.wf(canonical=False) if ty == "q" else o.wf()
        if m:
            R.fail(nm, "token of %d characters: destination ill-formed: %s" % (len(digs), m))
        if lib.alloc_errors() or S.v_check_guards():
            R.fail(nm, "token of %d characters: %s" % (len(digs), lib.alloc_msg()))
            S.v_reset_errors()
        if ty == "z":
            o.set(0, alloc=1)
        elif ty == "q":
            o.set(0, 1)
            lib._zset_at(o.np, 0, 1)
            lib._zset_at(o.dp, 1, 1)
        if ty != "f" and lib.live_blocks() != before:
            R.fail(nm, "token of %d characters: blocks %d -> %d" % (len(digs), before, lib.live_blocks()))
        R.count("states", 1)
        return (ty, ln < 100, term)

    sp.append(Space("inp_str_token_lengths", [(ty, lo) for ty in "zqf" for lo in range(1, TOKN + 1, 50)], tk_cases, tk_one,
                    "mpz/mpq/mpf_inp_str: EVERY token length 1..%d x three terminators (EOF, white space, non-digit): count, value, well-formedness, allocator contract and guard bytes (the token buffer grows by reallocation at some lengths)" % TOKN))

    sp.append(Space("streams_and_random_floats", ["raw", "txt", "furb"], tr_cases, tr_one,
                    "mpz_inp_raw / mpz,mpq,mpf_inp_str on streams cut after every byte (EOF and error): destination stays well formed and usable, no block lost; mpf_urandomb results obey the mpf format (zero has exponent 0)"))
    return sp


def _s(x):
    if isinstance(x, int):
        return hex(x)
    if isinstance(x, (tuple, list)):
        return "(" + ",".join(_s(e) for e in x) + ")"
    return str(x)
