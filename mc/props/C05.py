"""C05  Outputs may alias inputs, and input-only operands are never modified."""
import itertools, math
from fractions import Fraction
from ctypes import c_void_p, addressof
from .. import lib, alphabet as al, api, mpnops as mo, rt
from ..explore import Space

ID = "C05"
LEVEL = "model_checking"
RULE = ("explicit enumeration of alias states on real objects: for every public mpz/mpq/mpf function taken from the tree's own mpir.h (prototypes "
        "parsed, mpz_ptr = output, mpz_srcptr = input) every way of identifying output variables with input variables of the same type and of "
        "passing one variable for several inputs (outputs pairwise distinct, as the manual requires) x argument values from per-type alphabets "
        "(preconditions from the manual) x destination allocation {tight, roomy}; the aliased call must leave every variable and the return value "
        "exactly as the call on distinct copies does, and operands that are not outputs must be unchanged; mpn functions: every overlap the "
        "manual permits. states = distinct (function, alias partition, allocation class, argument tuple); transitions = calls executed (aliased + "
        "reference).")
RULE = RULE + (" " + 'Later additions: exceptions in the precondition table surface as harness errors (never skips); thorough tier uses the wide alphabets api.ZBIG/QBIG/FBIG.')
ASSUMPTIONS = ["the reference side (distinct variables) is checked against value oracles by C01-C03, C07-C13",
               "combinations the manual excludes (same variable for two outputs; mpz_invert modulus of absolute value <= 1; zero divisors) are not generated"]
BUDGET = {"quick": 420, "thorough": 2400}
FPREC = 128


def passes(tier):
    return ["pin", "rt"] if tier == "quick" else ["pin", "rt", "asan"]


def load(variant):
    if variant == "rt":
        rt.load()
        rt.set_vector(rt.floor_vector())
    else:
        lib.load(variant)


def alias_patterns(fn):
    """list of tuples `grp` with one entry per object parameter: the id of the variable it uses.
    Variables are numbered by first use; pattern 0 is 'all distinct'."""
    objs = fn.objs()
    kinds = [fn.params[i][0] for i in objs]
    roles = [fn.params[i][1] for i in objs]
    n = len(objs)
    pats = set()

    def rec(i, grp):
        if i == n:
            pats.add(tuple(grp))
            return
        # own variable
        rec(i + 1, grp + [max(grp, default=-1) + 1])
        for j in range(i):
            if kinds[j] != kinds[i]:
                continue
            g = grp[j]
            # members of group g so far
            mem = [k for k in range(i) if grp[k] == g]
            # two outputs may not share a variable
            if roles[i] in ("o", "w") and any(roles[k] in ("o", "w") for k in mem):
                continue
            if g not in [grp[k] for k in range(j)]:      # first member only, avoid duplicates
                rec(i + 1, grp + [g])
    rec(0, [])
    distinct = tuple(range(n))
    out = [distinct] + sorted(p for p in pats if p != distinct)
    return out


class Var:
    def __init__(self, kind):
        self.kind = kind
        self.o = lib.Z() if kind == "Z" else (lib.Q() if kind == "Q" else lib.F(FPREC))

    def set(self, v, roomy=False):
        if self.kind == "Z":
            self.o.set(v, alloc=(al.nl(abs(v)) + 4) if roomy else max(1, al.nl(abs(v))))
        elif self.kind == "Q":
            self.o.set(v.numerator, v.denominator, nalloc=(al.nl(abs(v.numerator)) + 4) if roomy else max(1, al.nl(abs(v.numerator))),
                       dalloc=(al.nl(v.denominator) + 4) if roomy else al.nl(v.denominator))
        else:
            self.o.set_frac(v)

    def get(self):
        if self.kind == "Q":
            return self.o.raw()
        return self.o.get()

    def wf(self):
        if self.kind == "Q":
            return self.o.wf(canonical=False)
        return self.o.wf()

    @property
    def p(self):
        return self.o.p


def spaces(tier, variant, seed):
    quick = tier == "quick"
    sp = []
    T = api.table()
    names = sorted(n for n, fn in T.items() if len(fn.objs()) >= 2 and any(r in ("o", "w") for k, r in fn.params if k in "ZQF") and api.SCALARS.get(n, 1) is not None)
    pool = {}

    def vars_():
        if not pool:
            pool["v"] = {k: [Var(k) for _ in range(12)] for k in "ZQF"}
        return pool["v"]

    JUNK = {"Z": 0x123456789ABCDEF0123, "Q": Fraction(-7, 9), "F": Fraction(-11, 4)}

    def argsets(fn, small):
        doms = []
        for i, (k, r) in enumerate(fn.params):
            if k in "ZQF" and r == "o":
                doms.append([None])
            else:
                doms.append(api.default_vals(k, fn.name, i, small))
        return doms

    def call(fn, grp, args, roomy, fresh_off=0):
        """build variables per group, call, return (ret, [values per object param], [wf msgs])"""
        V = vars_()
        objs = fn.objs()
        used = {}
        cargs = []
        cnt = {"Z": fresh_off, "Q": fresh_off, "F": fresh_off}
        gi = 0
        var_of = {}
        for oi, pi in enumerate(objs):
            k, r = fn.params[pi]
            g = grp[oi]
            if g not in var_of:
                v = V[k][cnt[k]]
                cnt[k] += 1
                var_of[g] = v
                # initial value: the first input value of the group, junk for a pure output group
                val = None
                for oj, pj in enumerate(objs):
                    if grp[oj] == g and fn.params[pj][1] in ("i", "w"):
                        val = args[pj]
                        break
                if val is None:
                    val = JUNK[k]
                v.set(val, roomy)
        for pi, (k, r) in enumerate(fn.params):
            if k in "ZQF":
                cargs.append(var_of[grp[objs.index(pi)]].p)
            else:
                cargs.append(args[pi])
        ret = fn.f()(*cargs)
        vals = [var_of[grp[oi]].get() for oi in range(len(objs))]
        wfs = [var_of[grp[oi]].wf() for oi in range(len(objs))]
        return ret, vals, wfs

    def consistent(fn, grp, args):
        """inputs sharing a variable must carry equal values"""
        objs = fn.objs()
        seen = {}
        for oi, pi in enumerate(objs):
            if fn.params[pi][1] in ("i", "w"):
                g = grp[oi]
                if g in seen and seen[g] != args[pi]:
                    return False
                seen.setdefault(g, args[pi])
        return True

    def al_cases(blk):
        name, pi_ = blk
        fn = T[name]
        pats = alias_patterns(fn)
        grp = pats[pi_]
        nin = sum(1 for k, r in fn.params if (k in "ZQF" and r != "o") or k not in "ZQF")
        small = (nin >= 3) if quick else ("big" if nin <= 2 else False)
        doms = argsets(fn, small)
        for args in itertools.product(*doms):
            if not consistent(fn, grp, args):
                continue
            if not api.precondition(fn, args):      # an exception here is a harness error and must surface, never skip cases silently
                continue
            yield (name, pi_, args, 0)
            if quick and hash(args) % 3:
                continue
            yield (name, pi_, args, 1)

    def al_one(case, R):
        name, pi_, args, roomy = case
        fn = T[name]
        pats = alias_patterns(fn)
        grp = pats[pi_]
        base = pats[0]
        objs = fn.objs()
        # reference: all distinct variables, EXCEPT that inputs sharing a variable with each other only (no output involved) are compared
        # against distinct copies too
        r0, v0, w0 = call(fn, base, args, roomy)
        r1, v1, w1 = call(fn, grp, args, roomy, fresh_off=6)
        nm = name
        if r0 != r1 and not (isinstance(r0, float) and isinstance(r1, float) and r0 != r0 and r1 != r1):
            R.fail(nm, "alias pattern %s args %s: returned %r, distinct variables return %r" % (grp, args, r1, r0))
        undefined_out = (name == "mpz_invert" and r0 == 0)      # rop is undefined when no inverse exists
        for oi, pi in enumerate(objs):
            k, r = fn.params[pi]
            if undefined_out and any(fn.params[objs[oj]][1] in ("o", "w") for oj in range(len(objs)) if grp[oj] == grp[oi]):
                continue
            if w1[oi]:
                R.fail(nm, "alias pattern %s args %s: object %d ill-formed: %s" % (grp, args, oi, w1[oi]))
            # expected final value of the variable used by parameter oi: if its group contains an output, that output's reference value;
            # otherwise the (unchanged) input value
            g = grp[oi]
            outs = [oj for oj in range(len(objs)) if grp[oj] == g and fn.params[objs[oj]][1] in ("o", "w")]
            if outs:
                exp = v0[outs[0]]
            else:
                exp = v0[oi]
                inp = args[pi]
                if k == "Q":
                    inp = (inp.numerator, inp.denominator)
                if v1[oi] != inp:
                    R.fail(nm, "alias pattern %s args %s: input-only operand %d was modified" % (grp, args, oi))
                if v0[oi] != inp:
                    R.fail(nm, "distinct variables, args %s: input-only operand %d was modified" % (args, oi))
            if v1[oi] != exp:
                R.fail(nm, "alias pattern %s args %s: parameter %d ends as %s, with distinct variables %s" % (grp, _s(args), oi, _s(v1[oi]), _s(exp)))
        R.count("states", 1)
        return (name, pi_, roomy, tuple((al.sgn(a) if isinstance(a, int) else 0) for a in args if a is not None)[:3])

    blocks = []
    for n in names:
        fn = T[n]
        for pi_ in range(1, len(alias_patterns(fn))):
            blocks.append((n, pi_))
    if variant == "asan":
        blocks = blocks[::2]
    sp.append(Space("alias_all_functions", blocks, al_cases, al_one,
                    "%d functions with outputs and inputs of one type (parsed from mpir.h), every alias partition (%d in total), argument alphabets per type, destination tight/roomy" % (len(names), len(blocks))))

    # ---- lifecycle functions not in the table: swap ----
    def sw_cases(blk):
        k = blk
        vals = {"Z": api.ZVALS, "Q": api.QVALS, "F": api.FVALS}[k]
        for a in vals:
            for b in vals:
                yield (k, a, b)

    def sw_one(case, R):
        k, a, b = case
        V = vars_()
        x, y = V[k][0], V[k][1]
        x.set(a)
        y.set(b, True)
        f = lib.fn({"Z": "mpz_swap", "Q": "mpq_swap", "F": "mpf_swap"}[k], None, c_void_p, c_void_p)
        f(x.p, y.p)
        ea = (a.numerator, a.denominator) if k == "Q" else a
        eb = (b.numerator, b.denominator) if k == "Q" else b
        if x.get() != eb or y.get() != ea or x.wf() or y.wf():
            R.fail("swap", "%s swap(%s,%s)" % (k, a, b))
        f(x.p, x.p)
        if x.get() != eb or x.wf():
            R.fail("swap", "%s swap(x,x) changed x" % k)
        R.count("states", 1)
        return (k, a == b)

    sp.append(Space("swap", list("ZQF"), sw_cases, sw_one, "mpz/mpq/mpf_swap on all value pairs, and with the same variable twice"))

    # ---- mpn overlaps the manual allows ----
    A = {}

    def arena():
        if "a" not in A:
            A["a"] = mo.Arena(4096)
        return A["a"]

    FB = {}

    def fb(name):
        if name not in FB:
            FB[name] = mo.bind(lib.L, name)
        return FB[name]

    OPSN = ["add_n", "sub_n", "and_n", "ior_n", "xor_n", "andn_n", "nand_n", "iorn_n", "nior_n", "xnor_n", "copyi", "copyd", "com_n", "neg_n", "lshift", "rshift",
            "add_1", "sub_1", "mul_1", "addmul_1", "submul_1", "add", "sub"]

    def mn_cases(blk):
        op, n = blk
        vals = al.RUN_list(al.L3, n, 2) if n > 2 else list(al.EXH(al.L3, n))
        for a in vals:
            yield (op, n, a)

    def mn_one(case, R):
        op, n, a = case
        cls, ref = mo.REF[op]
        b = (a * 0x9E3779B97F4A7C15 + 1) & al.ones(n)
        msgs = []
        if cls in ("n2", "n2v"):
            for mode in (0, 1, 2, 3, 4):
                msgs.append(mo.run_n2(arena(), fb(op), ref, n, a, b, mode))
        elif cls in ("n1", "n1v"):
            ds = {"copyi": (None, 0, -1, -2, -n), "copyd": (None, 0, 1, 2, n)}.get(op, (None, 0))
            for d in ds:
                msgs.append(mo.run_n1(arena(), fb(op), ref, n, a, d))
        elif cls == "sh":
            ds = (None, 0, 1, 2, n) if op == "lshift" else (None, 0, -1, -2, -n)
            for d in ds:
                for c in (1, 31, 63):
                    msgs.append(mo.run_sh(arena(), fb(op), ref, n, a, c, d))
        elif cls == "l1":
            for ip in (0, 1):
                msgs.append(mo.run_l1(arena(), fb(op), ref, n, a, b & al.M, ip))
        elif cls == "l1a":
            for ip in (0, 1):
                msgs.append(mo.run_l1(arena(), fb(op), ref, n, a, b & al.M, ip, r0=b))
        elif cls == "ao":
            for n2 in {1, max(1, n // 2), n}:
                for mode in (0, 1, 2):
                    msgs.append(mo.run_ao(arena(), fb(op), ref, n, a, n2, b & al.ones(n2), mode))
        for m in msgs:
            if m:
                R.fail("mpn_" + op, "n=%d a=%x: %s" % (n, a, m))
        R.count("states", len(msgs))
        return (op, n)

    NN = 12 if quick else 33
    sp.append(Space("mpn_overlaps", [(op, n) for op in OPSN for n in range(1, NN + 1)], mn_cases, mn_one,
                    "mpn functions with every overlap the manual permits (same operand, rp==s1, rp==s2, shifted destinations for copyi/copyd/lshift/rshift incl. distance n)"))
    return sp


def _s(x):
    if isinstance(x, int):
        return hex(x)
    if isinstance(x, tuple):
        return "(" + ",".join(_s(e) for e in x) + ")"
    return str(x)
