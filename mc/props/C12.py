"""C12  Rational arithmetic is exact and every result is canonical."""
import math
from fractions import Fraction
from ctypes import c_void_p, c_long, c_ulong, c_int, c_double, addressof
from .. import lib, alphabet as al
from ..explore import Space

ID = "C12"
LEVEL = "exploration"
RULE = ("bounded-exhaustive enumeration: a set of canonical rationals built from numerators/denominators in {1,2,3,4,6,B-1,B,B+1,2^63,B^2-1,2^127,3*2^64,"
        "dense} (all signs, zero, integers) closed under the constructions that make each internal gcd trivial / non-trivial / equal to a whole "
        "operand; ALL ordered pairs through add, sub, mul, div with every alias mode (r, r==a, r==b, a==b same object, all same); inv, neg, abs; "
        "mul_2exp/div_2exp for shifts 0..200 across limb boundaries, in place and separate; canonicalize on every non-canonical (n,d) pair of a "
        "grid including negative denominators; set_z/si/ui/d/f, set_num/den, get_num/den, swap. Oracle: fractions.Fraction (its normal form is the "
        "canonical form). distinct_nontrivial = distinct (function, alias mode, sign/size classes of operands and result) tuples.")
RULE = RULE + (" " + 'Later additions: mpq_canonicalize over a family of common factors (multi-limb with low limb 1/2/3/0); integer arguments that are the numerator or denominator of the rational being written.')
ASSUMPTIONS = ["fractions.Fraction is the reference model; its normal form (positive denominator, lowest terms, 0/1) is the canonical form"]
BUDGET = {"quick": 300, "thorough": 1800}
M, H, B = al.M, al.H, al.B


def passes(tier):
    return ["pin"] if tier == "quick" else ["pin", "asan"]


def spaces(tier, variant, seed):
    P = c_void_p
    quick = tier == "quick"
    sp = []
    dense2 = al.PAT(2)["dense"]
    MAG = [1, 2, 3, 4, 6, M, B, B + 1, H, B * B - 1, 1 << 127, 3 << 64, dense2 | 1, 12 * M, 1 << 190]
    if not quick:
        MAG += [al.PAT(3)["dense"], (1 << 192) - 1, 10 ** 19, (1 << 64) * (B + 1), 5, 7, 12, 255, 1 << 32, (1 << 32) + 1, H + 1, H - 1, M - 1, B + 2, B * B, B * B + 1, (1 << 128) - 3,
                al.PAT(4)["dense"] | 1, 6 * B, 1 << 65, (1 << 320) + 1]
    qs = {Fraction(0)}
    for n in MAG:
        for d in MAG:
            qs.add(Fraction(n, d))
            qs.add(Fraction(-n, d))
    QS = sorted(qs)
    if variant == "asan":
        QS = QS[::3]
    f2 = {k: lib.fn("mpq_" + k, None, P, P, P) for k in ("add", "sub", "mul", "div")}
    f1 = {k: lib.fn("mpq_" + k, None, P, P) for k in ("inv", "neg", "abs", "set")}
    fsh = {k: lib.fn("mpq_" + k, None, P, P, c_ulong) for k in ("mul_2exp", "div_2exp")}
    f_canon = lib.fn("mpq_canonicalize", None, P)
    pool = {}

    def env():
        if not pool:
            pool["q"] = [lib.Q() for _ in range(3)]
            pool["z"] = [lib.Z() for _ in range(2)]
            pool["f"] = lib.F(2048)
        return pool

    def chkq(R, name, q, e, what):
        gn, gd = q.raw()
        if (gn, gd) != (e.numerator, e.denominator):
            val_ok = gd != 0 and Fraction(gn, gd) == e
            R.fail(name, "%s: got %x/%x expected %x/%x (%s)" % (what, gn, gd, e.numerator, e.denominator, "value right, NOT canonical" if val_ok else "value wrong"))
        m = q.wf(canonical=False)
        if m:
            R.fail(name, "%s: ill-formed: %s" % (what, m))

    PY = {"add": lambda a, b: a + b, "sub": lambda a, b: a - b, "mul": lambda a, b: a * b, "div": lambda a, b: a / b}

    def ar_cases(blk):
        op, i = blk
        a = QS[i]
        for j, b in enumerate(QS):
            if op == "div" and b == 0:
                continue
            for mode in (0, 1, 2):
                yield (op, i, j, mode)
            if i == j:
                yield (op, i, j, 3)
                yield (op, i, j, 4)

    def ar_one(case, R):
        op, i, j, mode = case
        a, b = QS[i], QS[j]
        e = env()
        qr, qa, qb = e["q"]
        qa.set(a.numerator, a.denominator)
        qb.set(b.numerator, b.denominator)
        ex = PY[op](a, b if mode < 3 else a)
        f = f2[op]
        if mode == 0:
            qr.set(7, 3, nalloc=1, dalloc=1)
            f(qr.p, qa.p, qb.p)
            out = qr
        elif mode == 1:
            f(qa.p, qa.p, qb.p)
            out = qa
        elif mode == 2:
            f(qb.p, qa.p, qb.p)
            out = qb
        elif mode == 3:
            f(qa.p, qa.p, qa.p)
            out = qa
        else:
            qr.set(1, 5)
            f(qr.p, qa.p, qa.p)
            out = qr
        chkq(R, "mpq_" + op, out, ex, "%s %s %s mode %d" % (a, op, b, mode))
        if out is not qa and qa.raw() != (a.numerator, a.denominator):
            R.fail("mpq_" + op, "operand 1 modified")
        if out is not qb and mode < 3 and qb.raw() != (b.numerator, b.denominator):
            R.fail("mpq_" + op, "operand 2 modified")
        g1 = math.gcd(a.numerator, b.denominator)
        g2 = math.gcd(b.numerator, a.denominator)
        g3 = math.gcd(a.denominator, b.denominator)
        return (op, mode, al.sgn(a), al.sgn(b), min(g1, 3), min(g2, 3), min(g3, 3), al.nl(abs(ex.numerator)), al.nl(ex.denominator), a.denominator == 1, b.denominator == 1)

    sp.append(Space("mpq_arith", [(op, i) for op in PY for i in range(len(QS))], ar_cases, ar_one,
                    "mpq_add/sub/mul/div: all ordered pairs of %d canonical rationals x alias modes (r, r==a, r==b, all same, a==b)" % len(QS)))

    SH = [0, 1, 2, 3, 62, 63, 64, 65, 66, 126, 127, 128, 129, 130, 190, 191, 192, 193, 200]

    def un_cases(blk):
        i = blk
        for op in ("inv", "neg", "abs", "set"):
            if op == "inv" and QS[i] == 0:
                continue
            yield (op, i, 0, 0)
            yield (op, i, 0, 1)
        for op in ("mul_2exp", "div_2exp"):
            for s in SH:
                yield (op, i, s, 0)
                yield (op, i, s, 1)

    def un_one(case, R):
        op, i, s, ip = case
        a = QS[i]
        e = env()
        qr, qa, qb = e["q"]
        qa.set(a.numerator, a.denominator)
        out = qa if ip else qr
        if not ip:
            qr.set(-5, 9, nalloc=1, dalloc=1)
        if op in f1:
            f1[op](out.p, qa.p)
            ex = {"inv": lambda x: 1 / x, "neg": lambda x: -x, "abs": abs, "set": lambda x: x}[op](a)
        else:
            fsh[op](out.p, qa.p, s)
            ex = a * (1 << s) if op == "mul_2exp" else a / (1 << s)
        chkq(R, "mpq_" + op, out, ex, "%s(%s,%d) in place %d" % (op, a, s, ip))
        if not ip and qa.raw() != (a.numerator, a.denominator):
            R.fail("mpq_" + op, "operand modified")
        tz_n = (a.numerator & -a.numerator).bit_length() - 1 if a.numerator else 0
        tz_d = (a.denominator & -a.denominator).bit_length() - 1
        return (op, ip, al.sgn(a), s, min(tz_n, 200) // 32, min(tz_d, 200) // 32, al.nl(abs(a.numerator)), al.nl(a.denominator))

    sp.append(Space("mpq_unary_2exp", list(range(len(QS))), un_cases, un_one,
                    "mpq_inv/neg/abs/set and mpq_mul_2exp/div_2exp (shifts %s), separate and in place" % SH))

    CN = [0, 1, -1, 2, -2, 6, -6, M, -M, B, -B, 12 * M, -(1 << 127), (3 << 64), B * B - 1, -(B * B - 1), dense2, (1 << 190), 6 * B]
    CD = [1, -1, 2, -2, 3, 6, -6, M, -M, B, -B, 12 * M, 1 << 127, -(3 << 64), B * B - 1, dense2 | 1, -(1 << 190), -6 * B]

    def cn_cases(blk):
        i = blk
        for d in CD:
            yield (CN[i], d)

    def cn_one(case, R):
        n, d = case
        e = env()
        q = e["q"][0]
        q.set(n, d)
        f_canon(q.p)
        chkq(R, "mpq_canonicalize", q, Fraction(n, d), "canonicalize(%x/%x)" % (n, d))
        return (al.sgn(n), al.sgn(d), min(math.gcd(n, d), 3), al.nl(abs(n)), al.nl(abs(d)))

    # (g*a)/(g*b) for coprime a, b and a family of common factors g, among them multi-limb factors whose low limb alone is 1, 2 or a
    # power of two (a gcd must be judged by all of its limbs), every sign combination
    CG = [1, 2, 3, 6, 12, M, H, B, 2 * B, B - 1, B + 1, B + 2, B + 3, 3 * B + 1, (1 << 65) + 1, B * B + 1, B * B + 2, (dense2 << 64) + 1, B * B + B + 1, B * B - 1, 1 << 127, 1 << 190,
          dense2 | 1, 3 << 64, (1 << 192) + 1, 10 ** 25, al.PAT(4)["dense"] | 1]
    CA = [1, 2, 3, 5, 7, M, B, B + 1, B - 2, dense2 | 1, 1 << 100, (1 << 130) + 1, 10 ** 20 + 1]

    def cg_cases(blk):
        gi = blk
        g = CG[gi]
        for a in CA:
            for b in CA:
                if math.gcd(a, b) != 1:
                    continue
                for sn in (1, -1):
                    for sd in (1, -1):
                        yield (sn * g * a, sd * g * b)
        yield (0, g)
        yield (0, -g)

    sp.append(Space("mpq_canonicalize_common_factors", list(range(len(CG))), cg_cases, cn_one,
                    "mpq_canonicalize((g*a)/(g*b)): %d common factors (single and multi limb, low limb 1 / 2 / 3 / 0) x coprime pairs from %d values x 4 sign combinations; zero numerators" % (len(CG), len(CA))))

    sp.append(Space("mpq_canonicalize", list(range(len(CN))), cn_cases, cn_one, "mpq_canonicalize on a numerator x denominator grid (denominators of either sign, common factors 1/small/whole operand)"))

    f_set_z = lib.fn("mpq_set_z", None, P, P)
    f_set_si = lib.fn("mpq_set_si", None, P, c_long, c_ulong)
    f_set_ui = lib.fn("mpq_set_ui", None, P, c_ulong, c_ulong)
    f_set_d = lib.fn("mpq_set_d", None, P, c_double)
    f_set_f = lib.fn("mpq_set_f", None, P, P)
    f_set_num = lib.fn("mpq_set_num", None, P, P)
    f_set_den = lib.fn("mpq_set_den", None, P, P)
    f_get_num = lib.fn("mpq_get_num", None, P, P)
    f_get_den = lib.fn("mpq_get_den", None, P, P)
    f_swap = lib.fn("mpq_swap", None, P, P)
    from .C11 import int_values, trunc_double
    IV = [v for v in int_values("quick") if abs(v).bit_length() <= 1100]
    if variant == "asan":
        IV = IV[::6]
    DV = set()
    for v in IV:
        t = trunc_double(v)
        if t is not None and not math.isinf(t):
            DV.add(t)
    for ee in (-1074, -1073, -1022, -1021, -600, -65, -64, -63, -2, -1, 0, 1, 52, 53, 62, 63, 64, 65, 600, 1023):
        for mant in (1.0, 1.5, 1.9999999999999998, 1.0000000000000002):
            x = math.ldexp(mant, ee)
            if x != 0 and not math.isinf(x):
                DV.add(x)
                DV.add(-x)
    DV.add(0.0)
    DV = sorted(DV)

    def cv_cases(blk):
        kind, lo = blk
        if kind == "z":
            for v in IV[lo:lo + 50]:
                yield ("z", v, 0)
                if 0 <= v <= M:
                    for d in (1, 2, 3, M, 1 << 32, 6):
                        yield ("ui", v, d)
                if -(1 << 63) <= v < (1 << 63):
                    for d in (1, 2, 3, M, 1 << 32, 6):
                        yield ("si", v, d)
        elif kind == "d":
            for d in DV[lo:lo + 50]:
                yield ("d", d, 0)
        else:
            for v in IV[lo:lo + 50]:
                for k in (0, 1, 63, 64, 65, 130, 200):
                    if abs(v).bit_length() <= 1000:
                        yield ("f", v, k)

    def cv_one(case, R):
        kind, v, d = case
        e = env()
        q = e["q"][0]
        q.set(-3, 7)
        if kind == "z":
            z = e["z"][0]
            z.set(v)
            f_set_z(q.p, z.p)
            chkq(R, "mpq_set_z", q, Fraction(v), "set_z(%x)" % v)
            # set_num / set_den / get_num / get_den / swap
            z2 = e["z"][1]
            z2.set(abs(v) + 1)
            f_set_den(q.p, z2.p)
            f_set_num(q.p, z.p)
            if q.raw() != (v, abs(v) + 1):
                R.fail("mpq_set_num/den", "got %x/%x" % q.raw())
            z.set(0)
            z2.set(0)
            f_get_num(z.p, q.p)
            f_get_den(z2.p, q.p)
            if z.get() != v or z2.get() != abs(v) + 1 or z.wf() or z2.wf():
                R.fail("mpq_get_num/den", "got %x %x" % (z.get(), z2.get()))
            q2 = e["q"][1]
            q2.set(5, 9)
            f_swap(q.p, q2.p)
            if q.raw() != (5, 9) or q2.raw() != (v, abs(v) + 1) or q.wf(False) or q2.wf(False):
                R.fail("mpq_swap", "values not exchanged")
            return (kind, al.sgn(v), al.nl(abs(v)))
        if kind in ("ui", "si"):
            (f_set_ui if kind == "ui" else f_set_si)(q.p, v, d)
            gn, gd = q.raw()
            if gd <= 0 or Fraction(gn, gd) != Fraction(v, d):
                R.fail("mpq_set_" + kind, "set(%d,%d): got %x/%x" % (v, d, gn, gd))
            if q.wf(False):
                R.fail("mpq_set_" + kind, "ill-formed")
            return (kind, al.sgn(v), d)
        if kind == "d":
            f_set_d(q.p, v)
            chkq(R, "mpq_set_d", q, Fraction(v), "set_d(%r)" % v)
            return (kind, al.sgn(v), abs(v) < 1, math.frexp(v)[1] // 64)
        f = e["f"]
        val = Fraction(v, 1 << d)
        f.set_frac(val)
        f_set_f(q.p, f.p)
        chkq(R, "mpq_set_f", q, val, "set_f(%s)" % val)
        return (kind, al.sgn(v), d, al.nl(abs(v)))

    # the integer argument of the mpz-typed entry points may be a component of the very rational that is written
    CQ = [Fraction(3, 5), Fraction(-7, 11), Fraction(1, (1 << 128) + 1), Fraction(-(1 << 70) - 1, 3), Fraction((1 << 64) + 1, (1 << 64) + 3), Fraction(5), Fraction(0), Fraction(-1, 1 << 64),
          Fraction(B * B - 1, 7), Fraction(2, B + 1)]

    def ca_cases(blk):
        qi = blk
        for op in ("set_z(q,num)", "set_z(q,den)", "set_num(q,den)", "set_den(q,num)", "get_num(num,q)", "get_num(den,q)", "get_den(num,q)", "get_den(den,q)"):
            yield (qi, op)

    def ca_one(case, R):
        qi, op = case
        e = env()
        q = e["q"][0]
        v = CQ[qi]
        q.set(v.numerator, v.denominator)
        n0, d0 = v.numerator, v.denominator
        if op == "set_den(q,num)" and n0 == 0:
            return None
        if op == "set_z(q,num)":
            f_set_z(q.p, q.np); exp = (n0, 1)
        elif op == "set_z(q,den)":
            f_set_z(q.p, q.dp); exp = (d0, 1)
        elif op == "set_num(q,den)":
            f_set_num(q.p, q.dp); exp = (d0, d0)
        elif op == "set_den(q,num)":
            f_set_den(q.p, q.np); exp = (n0, n0)
        elif op == "get_num(num,q)":
            f_get_num(q.np, q.p); exp = (n0, d0)
        elif op == "get_num(den,q)":
            f_get_num(q.dp, q.p); exp = (n0, n0)
        elif op == "get_den(num,q)":
            f_get_den(q.np, q.p); exp = (d0, d0)
        else:
            f_get_den(q.dp, q.p); exp = (n0, d0)
        got = q.raw()
        m = q.wf(canonical=False)
        if got != exp or m:
            R.fail("mpq_" + op.split("(")[0], "%s on %s: components become %x/%x, expected %x/%x %s" % (op, v, got[0], got[1], exp[0], exp[1], m or ""))
        q.set(0, 1)
        return (qi, op)

    sp.append(Space("mpq_component_aliasing", list(range(len(CQ))), ca_cases, ca_one,
                    "mpq_set_z / set_num / set_den / get_num / get_den with the integer argument being the numerator or denominator of the same rational"))

    blocks = [("z", lo) for lo in range(0, len(IV), 50)] + [("d", lo) for lo in range(0, len(DV), 50)] + [("f", lo) for lo in range(0, len(IV), 50)]
    sp.append(Space("mpq_conversions", blocks, cv_cases, cv_one,
                    "mpq_set_z, set_ui/si (value exact), set_d (exact, every double of the C11 set incl. subnormals), set_f (exact), set_num/den, get_num/den, swap"))
    return sp
