"""C11  Comparisons and conversions to and from C types agree with exact arithmetic."""
import math, struct
from fractions import Fraction
from ctypes import c_void_p, c_long, c_ulong, c_int, c_uint64, c_int64, c_double, byref, addressof
from .. import lib, alphabet as al
from ..explore import Space

ID = "C11"
LEVEL = "exploration"
RULE = ("bounded-exhaustive enumeration over a structured value set: integers +-(m*2^e+d), m in {1,3,2^53+-1,2^54+-1,2^63+-1,2^64+-1}, every e in "
        "0..70, 100..140, 1020..1026, d in {-1,0,1}, every C type boundary +-1; the same as doubles (plus subnormal/huge/infinite edges), as "
        "rationals p/q and as mpf values with precisions 64/128/256; every compare function on ALL ordered pairs of a mixed subset (total order "
        "consistency) and every set/get/fits function on every value. Oracle: exact Fraction arithmetic, truncation toward zero by integer "
        "masking. distinct_nontrivial = distinct (function, operand classes, result) tuples.")
RULE = RULE + (" " + "Later additions: tiny and padded mpf representations; results of mpz_get_d beyond the double range must be numbers of the operand's sign not below DBL_MAX.")
ASSUMPTIONS = ["Fraction(double) is exact; Python int/Fraction comparison is the reference order",
               "results the manual calls system dependent or undefined (get_d beyond DBL_MAX or in the subnormal range, get_si/get_ui of mpf values that do not fit, NaN) are not asserted"]
BUDGET = {"quick": 300, "thorough": 1800}
M, H = al.M, al.H
LMAX, LMIN = (1 << 63) - 1, -(1 << 63)
TYPES = {"ulong": (0, M), "slong": (LMIN, LMAX), "uint": (0, (1 << 32) - 1), "sint": (-(1 << 31), (1 << 31) - 1),
         "ushort": (0, 65535), "sshort": (-32768, 32767), "ui": (0, M), "si": (LMIN, LMAX)}


def passes(tier):
    return ["pin"] if tier == "quick" else ["pin", "asan"]


def trunc_double(x):
    """x (int or Fraction) truncated toward zero to a double; None when outside the asserted range"""
    x = Fraction(x)
    if x == 0:
        return 0.0
    s = -1 if x < 0 else 1
    a = abs(x)
    n, d = a.numerator, a.denominator
    e = n.bit_length() - d.bit_length()
    # 2^(e-1) <= a < 2^(e+1): normalise
    if (n << max(0, -e)) >= (d << max(0, e)):
        e += 1
    # now 2^(e-1) <= a < 2^e
    if e > 1024 or e < -1021:
        return None
    sh = 53 - e
    mant = (n << sh) // d if sh >= 0 else n // (d << -sh)
    return s * math.ldexp(mant, -sh)


def int_values(tier):
    ms = [1, 3, (1 << 53) - 1, (1 << 53) + 1, (1 << 54) - 1, (1 << 54) + 1, (1 << 63) - 1, (1 << 63) + 1, (1 << 64) - 1, (1 << 64) + 1]
    es = list(range(0, 71)) + list(range(100, 141)) + list(range(1020, 1027))
    if tier == "quick":
        es = list(range(0, 71, 1)) + [100, 118, 127, 128, 129, 140] + [1021, 1022, 1023, 1024, 1025]
    out = set()
    for m in ms:
        for e in es:
            for d in (-1, 0, 1):
                v = (m << e) + d
                out.add(v)
                out.add(-v)
    for lo, hi in TYPES.values():
        for b in (lo, hi):
            for d in (-2, -1, 0, 1, 2):
                out.add(b + d)
    out.add(0)
    return sorted(out)


def spaces(tier, variant, seed):
    P = c_void_p
    quick = tier == "quick"
    sp = []
    IV = int_values(tier)
    if variant == "asan":
        IV = IV[::7]
    # doubles: conversions of the integer set that are exact or truncated + edges
    DV = set()
    for v in IV:
        t = trunc_double(v)
        if t is not None and not math.isinf(t):
            DV.add(t)
    for e in (-1074, -1073, -1023, -1022, -1021, -60, -2, -1, 0, 1, 52, 53, 62, 63, 64, 65, 1022, 1023):
        for mant in (1.0, 1.5, 1.9999999999999998):
            try:
                x = math.ldexp(mant, e)
            except OverflowError:
                continue
            if x != 0 and not math.isinf(x):
                DV.add(x)
                DV.add(-x)
    DV |= {0.0, 0.5, -0.5, 1.5, -1.5, 0.9999999999999999, -0.9999999999999999, 1e300, -1e300, float("inf"), float("-inf"),
           9007199254740993.0, 18446744073709551616.0, 9223372036854775808.0, -9223372036854775808.0, 4294967296.5, 65535.5, -32768.5, 2.5, 1e-300}
    DV = sorted(DV)

    f_cmp = lib.fn("mpz_cmp", c_int, P, P)
    f_cmpabs = lib.fn("mpz_cmpabs", c_int, P, P)
    f_cmp_d = lib.fn("mpz_cmp_d", c_int, P, c_double)
    f_cmpabs_d = lib.fn("mpz_cmpabs_d", c_int, P, c_double)
    f_cmp_ui = lib.fn("_mpz_cmp_ui", c_int, P, c_ulong)
    f_cmp_si = lib.fn("_mpz_cmp_si", c_int, P, c_long)
    f_cmpabs_ui = lib.fn("mpz_cmpabs_ui", c_int, P, c_ulong)
    S = lib.S
    pool = {}

    def env():
        if not pool:
            pool["z"] = [lib.Z() for _ in range(3)]
            pool["q"] = [lib.Q() for _ in range(2)]
            pool["f"] = {p: [lib.F(p), lib.F(p)] for p in (64, 128, 256, 2048)}
        return pool

    def s3(x):
        return (x > 0) - (x < 0)

    ZS = [v for v in IV if abs(v).bit_length() <= 200]
    SUB = ZS if not quick else ZS[::3] + [v for v in ZS if abs(v) <= 4]

    def zc_cases(blk):
        i = blk
        a = SUB[i]
        for b in SUB:
            yield ("zz", a, b)
        for d in DV:
            yield ("zd", a, d)
        for v in IV:
            if 0 <= v <= M:
                yield ("zu", a, v)
            if LMIN <= v <= LMAX:
                yield ("zs", a, v)

    def zc_one(case, R):
        kind, a, b = case
        e = env()
        z0, z1 = e["z"][0], e["z"][1]
        z0.set(a)
        if kind == "zz":
            z1.set(b)
            r = f_cmp(z0.p, z1.p)
            if s3(r) != s3(a - b):
                R.fail("mpz_cmp", "cmp(%x,%x) = %d" % (a, b, r))
            r = f_cmpabs(z0.p, z1.p)
            if s3(r) != s3(abs(a) - abs(b)):
                R.fail("mpz_cmpabs", "cmpabs(%x,%x) = %d" % (a, b, r))
            if a == b and (f_cmp(z0.p, z0.p) != 0 or f_cmpabs(z0.p, z0.p) != 0):
                R.fail("mpz_cmp", "same object compares unequal")
            return (kind, s3(a), s3(b), s3(a - b), al.nl(abs(a)) - al.nl(abs(b)))
        if kind == "zd":
            fb = Fraction(b) if not math.isinf(b) else (Fraction(10) ** 400 * (1 if b > 0 else -1))
            r = f_cmp_d(z0.p, b)
            if s3(r) != s3(a - fb):
                R.fail("mpz_cmp_d", "cmp_d(%x,%r) = %d" % (a, b, r))
            r = f_cmpabs_d(z0.p, b)
            if s3(r) != s3(abs(a) - abs(fb)):
                R.fail("mpz_cmpabs_d", "cmpabs_d(%x,%r) = %d" % (a, b, r))
            return (kind, s3(a), s3(b), s3(a - fb), math.isinf(b), abs(b) < 1)
        if kind == "zu":
            r = f_cmp_ui(z0.p, b)
            if s3(r) != s3(a - b):
                R.fail("mpz_cmp_ui", "cmp_ui(%x,%d) = %d" % (a, b, r))
            r = S.v_mpz_cmp_ui(z0.p, b)
            if s3(r) != s3(a - b):
                R.fail("mpz_cmp_ui(macro)", "cmp_ui(%x,%d) = %d" % (a, b, r))
            r = f_cmpabs_ui(z0.p, b)
            if s3(r) != s3(abs(a) - b):
                R.fail("mpz_cmpabs_ui", "cmpabs_ui(%x,%d) = %d" % (a, b, r))
            return (kind, s3(a), s3(a - b), b == 0)
        r = f_cmp_si(z0.p, b)
        if s3(r) != s3(a - b):
            R.fail("mpz_cmp_si", "cmp_si(%x,%d) = %d" % (a, b, r))
        r = S.v_mpz_cmp_si(z0.p, b)
        if s3(r) != s3(a - b):
            R.fail("mpz_cmp_si(macro)", "cmp_si(%x,%d) = %d" % (a, b, r))
        return (kind, s3(a), s3(b), s3(a - b))

    sp.append(Space("mpz_compare", list(range(len(SUB))), zc_cases, zc_one,
                    "mpz_cmp/cmpabs on all ordered pairs; cmp_d/cmpabs_d against every double (incl. infinities, subnormals); cmp_ui/cmp_si (function and macro)/cmpabs_ui against every fitting value"))

    # ---- set / get / fits ----
    f_set_ui = lib.fn("mpz_set_ui", None, P, c_ulong)
    f_set_si = lib.fn("mpz_set_si", None, P, c_long)
    f_set_ux = lib.fn("mpz_set_ux", None, P, c_uint64)
    f_set_sx = lib.fn("mpz_set_sx", None, P, c_int64)
    f_set_d = lib.fn("mpz_set_d", None, P, c_double)
    f_iset = {"ui": lib.fn("mpz_init_set_ui", None, P, c_ulong), "si": lib.fn("mpz_init_set_si", None, P, c_long), "d": lib.fn("mpz_init_set_d", None, P, c_double)}
    f_get_ui = lib.fn("mpz_get_ui", c_ulong, P)
    f_get_si = lib.fn("mpz_get_si", c_long, P)
    f_get_ux = lib.fn("mpz_get_ux", c_uint64, P)
    f_get_sx = lib.fn("mpz_get_sx", c_int64, P)
    f_get_d = lib.fn("mpz_get_d", c_double, P)
    f_get_d_2exp = lib.fn("mpz_get_d_2exp", c_double, c_void_p, P)
    f_fits = {t: lib.fn("mpz_fits_%s_p" % t, c_int, P) for t in TYPES}

    def gs_cases(blk):
        lo, hi = blk
        for v in IV[lo:hi]:
            yield ("z", v)
        for d in DV[lo:hi]:
            yield ("d", d)

    def gs_one(case, R):
        kind, v = case
        e = env()
        z = e["z"][0]
        if kind == "d":
            if math.isinf(v):
                return None
            ev = int(Fraction(v).numerator // Fraction(v).denominator) if v >= 0 else -int((-Fraction(v)).numerator // (-Fraction(v)).denominator)
            z.set(-99, alloc=1)
            f_set_d(z.p, v)
            if z.get() != ev or z.wf():
                R.fail("mpz_set_d", "set_d(%r): got %x expected %x" % (v, z.get(), ev))
            raw = lib.MPZ()
            f_iset["d"](addressof(raw), v)
            if lib.zget(addressof(raw)) != ev:
                R.fail("mpz_init_set_d", "init_set_d(%r): got %x" % (v, lib.zget(addressof(raw))))
            lib.zclear(addressof(raw))
            return (kind, s3(v), min(abs(ev).bit_length(), 1100) // 32)
        z.set(v)
        a = abs(v)
        r = f_get_ui(z.p)
        if r != a & M:
            R.fail("mpz_get_ui", "get_ui(%x) = %x" % (v, r))
        r = f_get_ux(z.p)
        if r != a & M:
            R.fail("mpz_get_ux", "get_ux(%x) = %x" % (v, r))
        fits = LMIN <= v <= LMAX
        for nm, f in (("mpz_get_si", f_get_si), ("mpz_get_sx", f_get_sx)):
            r = f(z.p)
            if fits:
                if r != v:
                    R.fail(nm, "(%x) = %d" % (v, r))
            # values that do not fit: the manual calls the result "probably not very useful" and the project's own
            # tests call it undefined (mpz_get_sx wraps modulo 2^64, mpz_get_si keeps the sign) -> not asserted
        for t, (lo, hi) in TYPES.items():
            r = f_fits[t](z.p)
            if bool(r) != (lo <= v <= hi):
                R.fail("mpz_fits_%s_p" % t, "(%x) = %d" % (v, r))
        td = trunc_double(v)
        if td is not None and not math.isinf(td) and a.bit_length() <= 1024:
            r = f_get_d(z.p)
            if r != td:
                R.fail("mpz_get_d", "get_d(%x) = %r expected %r (truncation)" % (v, r, td))
        elif td is None and a.bit_length() > 1024:
            # beyond the double range the manual calls the result system dependent: whatever it is, it is a number of the operand's sign
            # and at least as large as the largest finite double (an infinity, or DBL_MAX by truncation) - never a NaN, never smaller
            r = f_get_d(z.p)
            if r != r or (r > 0) != (v > 0) or abs(r) < 1.7976931348623157e308:
                R.fail("mpz_get_d", "get_d of a %d-bit value = %r: not a number of the operand's sign beyond the largest finite double" % (a.bit_length(), r))
        ex = c_long(12345)
        r = f_get_d_2exp(byref(ex), z.p)
        if v == 0:
            if r != 0.0 or ex.value != 0:
                R.fail("mpz_get_d_2exp", "zero: %r, exp %d" % (r, ex.value))
        else:
            L = a.bit_length()
            mant = a >> (L - 53) if L > 53 else a << (53 - L)
            exp_d = s3(v) * math.ldexp(mant, -53)
            if r != exp_d or ex.value != L:
                R.fail("mpz_get_d_2exp", "(%x) = %r * 2^%d expected %r * 2^%d" % (v, r, ex.value, exp_d, L))
        if z.get() != v:
            R.fail("mpz_get_*", "operand modified")
        if 0 <= v <= M:
            z.set(-1, alloc=1)
            f_set_ui(z.p, v)
            if z.get() != v or z.wf():
                R.fail("mpz_set_ui", "(%d): got %x" % (v, z.get()))
            f_set_ux(z.p, v)
            if z.get() != v or z.wf():
                R.fail("mpz_set_ux", "(%d): got %x" % (v, z.get()))
            raw = lib.MPZ()
            f_iset["ui"](addressof(raw), v)
            if lib.zget(addressof(raw)) != v:
                R.fail("mpz_init_set_ui", "(%d)" % v)
            lib.zclear(addressof(raw))
        if LMIN <= v <= LMAX:
            z.set(1 << 70)
            f_set_si(z.p, v)
            if z.get() != v or z.wf():
                R.fail("mpz_set_si", "(%d): got %x" % (v, z.get()))
            f_set_sx(z.p, v)
            if z.get() != v or z.wf():
                R.fail("mpz_set_sx", "(%d): got %x" % (v, z.get()))
            raw = lib.MPZ()
            f_iset["si"](addressof(raw), v)
            if lib.zget(addressof(raw)) != v:
                R.fail("mpz_init_set_si", "(%d)" % v)
            lib.zclear(addressof(raw))
        return (kind, s3(v), min(a.bit_length(), 1100), tuple(lo <= v <= hi for lo, hi in TYPES.values()))

    nmax = max(len(IV), len(DV))
    sp.append(Space("mpz_set_get_fits", [(lo, lo + 64) for lo in range(0, nmax, 64)], gs_cases, gs_one,
                    "mpz_get_ui/si/ux/sx/d/d_2exp, fits_*_p (8 types), set_ui/si/ux/sx/d (+init_set forms) on every value of the set"))

    # ---- mpq ----
    f_qcmp = lib.fn("mpq_cmp", c_int, P, P)
    f_qcmp_z = lib.fn("mpq_cmp_z", c_int, P, P)
    f_qcmp_ui = lib.fn("_mpq_cmp_ui", c_int, P, c_ulong, c_ulong)
    f_qcmp_si = lib.fn("_mpq_cmp_si", c_int, P, c_long, c_ulong)
    f_qequal = lib.fn("mpq_equal", c_int, P, P)
    f_qget_d = lib.fn("mpq_get_d", c_double, P)
    small = [0, 1, -1, 2, -3, 7, (1 << 32) + 1, -(1 << 53) - 1, (1 << 63) - 1, -(1 << 63), (1 << 64) - 1, (1 << 64) + 1, (3 << 100) + 1, -(1 << 128) + 1, (1 << 140) - 1, (1 << 1022) + 1, 5, 10 ** 20]
    dens = [1, 2, 3, 7, (1 << 32) - 1, (1 << 53) + 1, (1 << 63) + 1, (1 << 64) - 1, (1 << 64) + 1, (1 << 100) + 3, (1 << 1000) + 1, 1 << 64, 1 << 1060, 10 ** 19]
    QV = sorted({Fraction(n, d) for n in small for d in dens})
    if quick:
        QV = QV[::2]
    if variant == "asan":
        QV = QV[::5]

    def qc_cases(blk):
        i = blk
        a = QV[i]
        for b in QV:
            yield ("qq", a.numerator, a.denominator, b.numerator, b.denominator)
        for v in ZS[::5]:
            yield ("qz", a.numerator, a.denominator, v, 1)
        for n in (0, 1, 2, 3, M, M - 1, 1 << 32):
            for d in (1, 2, 3, M, 1 << 32, (1 << 63) + 1):
                yield ("qu", a.numerator, a.denominator, n, d)
        for n in (0, 1, -1, 2, -3, LMAX, LMIN, LMIN + 1, 1 << 32, -(1 << 32)):
            for d in (1, 2, 3, M, 1 << 32):
                yield ("qs", a.numerator, a.denominator, n, d)
        yield ("qd", a.numerator, a.denominator, 0, 1)

    def qc_one(case, R):
        kind, an, ad, bn, bd = case
        e = env()
        q0, q1 = e["q"]
        a = Fraction(an, ad)
        q0.set(an, ad)
        if kind == "qq":
            b = Fraction(bn, bd)
            q1.set(bn, bd)
            r = f_qcmp(q0.p, q1.p)
            if s3(r) != s3(a - b):
                R.fail("mpq_cmp", "cmp(%s,%s) = %d" % (a, b, r))
            r = f_qequal(q0.p, q1.p)
            if bool(r) != (a == b):
                R.fail("mpq_equal", "equal(%s,%s) = %d" % (a, b, r))
            return (kind, s3(a), s3(b), s3(a - b))
        if kind == "qz":
            z = e["z"][0]
            z.set(bn)
            r = f_qcmp_z(q0.p, z.p)
            if s3(r) != s3(a - bn):
                R.fail("mpq_cmp_z", "cmp_z(%s,%x) = %d" % (a, bn, r))
            return (kind, s3(a), s3(bn), s3(a - bn))
        if kind == "qu":
            b = Fraction(bn, bd)
            r = f_qcmp_ui(q0.p, bn, bd)
            r2 = S.v_mpq_cmp_ui(q0.p, bn, bd)
            if s3(r) != s3(a - b) or s3(r2) != s3(a - b):
                R.fail("mpq_cmp_ui", "cmp_ui(%s, %d/%d) = %d / macro %d" % (a, bn, bd, r, r2))
            return (kind, s3(a), s3(a - b))
        if kind == "qs":
            b = Fraction(bn, bd)
            r = f_qcmp_si(q0.p, bn, bd)
            r2 = S.v_mpq_cmp_si(q0.p, bn, bd)
            if s3(r) != s3(a - b) or s3(r2) != s3(a - b):
                R.fail("mpq_cmp_si", "cmp_si(%s, %d/%d) = %d / macro %d" % (a, bn, bd, r, r2))
            return (kind, s3(a), s3(bn), s3(a - b))
        td = trunc_double(a)
        if td is not None and not math.isinf(td):
            r = f_qget_d(q0.p)
            if r != td:
                R.fail("mpq_get_d", "get_d(%s) = %r expected %r" % (a, r, td))
        if S.v_mpq_sgn(q0.p) != s3(a):
            R.fail("mpq_sgn", "sgn(%s)" % a)
        return (kind, s3(a), td is None)

    sp.append(Space("mpq_compare_get_d", list(range(len(QV))), qc_cases, qc_one,
                    "mpq_cmp/equal on all ordered pairs of %d canonical rationals; cmp_z, cmp_ui, cmp_si (function and macro), get_d (truncation), sgn" % len(QV)))

    # ---- mpf ----
    f_fcmp = lib.fn("mpf_cmp", c_int, P, P)
    f_fcmp_d = lib.fn("mpf_cmp_d", c_int, P, c_double)
    f_fcmp_ui = lib.fn("mpf_cmp_ui", c_int, P, c_ulong)
    f_fcmp_si = lib.fn("mpf_cmp_si", c_int, P, c_long)
    f_fcmp_z = lib.fn("mpf_cmp_z", c_int, P, P) if lib.has("mpf_cmp_z") else None
    f_fget_d = lib.fn("mpf_get_d", c_double, P)
    f_fget_d_2exp = lib.fn("mpf_get_d_2exp", c_double, c_void_p, P)
    f_fget_si = lib.fn("mpf_get_si", c_long, P)
    f_fget_ui = lib.fn("mpf_get_ui", c_ulong, P)
    f_ffits = {t: lib.fn("mpf_fits_%s_p" % t, c_int, P) for t in TYPES}
    f_fint = lib.fn("mpf_integer_p", c_int, P)
    # exact binary values: the integer set scaled by 2^-k (must fit the chosen precision + 1 limbs)
    FVs = set()
    for v in ZS[::(4 if quick else 2)]:
        for k in (0, 1, 64, 65, 130):
            FVs.add(Fraction(v, 1 << k))
    for lo, hi in TYPES.values():
        for b in (lo, hi):
            for num in (-3, -1, 0, 1, 3):
                FVs.add(Fraction(b) + Fraction(num, 2))
                FVs.add(Fraction(b) + Fraction(num, 1 << 70))
    for e_ in (1074, 1073, 1072, 1023, 1022, 1021, 1020):
        for m_ in (1, 3, (1 << 52) - 1, (1 << 52) + 1):
            FVs.add(Fraction(m_, 1 << e_))
            FVs.add(Fraction(-m_, 1 << e_))
    FVs.add(Fraction(1, 1 << 1022) - Fraction(1, 1 << 1074))
    FVs.add(Fraction(1, 1 << 1100))
    FV = sorted(FVs)
    if variant == "asan":
        FV = FV[::6]

    def fset(e, idx, v, pad=0):
        f = e["f"][2048][idx]
        f.set_frac(v, pad)
        return f

    def fc_cases(blk):
        i = blk
        a = FV[i]
        step = 5 if quick else 2
        for b in FV[i % step::step]:
            yield ("ff", a.numerator, a.denominator, b.numerator, b.denominator)
        for d in DV:
            yield ("fd", a.numerator, a.denominator, d, 1)
        for v in IV[::3]:
            if 0 <= v <= M:
                yield ("fu", a.numerator, a.denominator, v, 1)
            if LMIN <= v <= LMAX:
                yield ("fs", a.numerator, a.denominator, v, 1)
            if abs(v).bit_length() < 200:
                yield ("fz", a.numerator, a.denominator, v, 1)
        yield ("fg", a.numerator, a.denominator, 0, 1)
        # non-minimal representations: every comparison against the values that are EQUAL or adjacent
        if a != 0 and a.numerator.bit_length() - a.denominator.bit_length() < 1500:
            yield ("ffP", a.numerator, a.denominator, a.numerator, a.denominator)
            for d in DV:
                fd = Fraction(d) if not math.isinf(d) else None
                if fd is not None and (fd == a or abs(fd - a) <= abs(a) / 1000):
                    yield ("fdP", a.numerator, a.denominator, d, 1)
            if a.denominator == 1:
                v = a.numerator
                for w in (v - 1, v, v + 1):
                    if 0 <= w <= M:
                        yield ("fuP", a.numerator, a.denominator, w, 1)
                    if LMIN <= w <= LMAX:
                        yield ("fsP", a.numerator, a.denominator, w, 1)
                    yield ("fzP", a.numerator, a.denominator, w, 1)
            yield ("fgP", a.numerator, a.denominator, 0, 1)

    def fc_one(case, R):
        kind, an, ad, b, bd = case
        e = env()
        a = Fraction(an, ad)
        pad = 0
        if kind.endswith("P"):
            # the same value stored with low zero limbs (as mpf_set_d, mpf_mul, mpf_div, mpf_sub leave them)
            kind = kind[:-1]
            pad = 1 + (an & 1)
        fa = fset(e, 0, a, pad)
        if kind == "ff":
            bb = Fraction(b, bd)
            fb = fset(e, 1, bb, pad and 2)
            r = f_fcmp(fa.p, fb.p)
            if s3(r) != s3(a - bb):
                R.fail("mpf_cmp", "cmp(%s,%s) = %d" % (a, bb, r))
            return (kind, s3(a), s3(bb), s3(a - bb), fa.s.exp - fb.s.exp)
        if kind == "fd":
            fb = Fraction(b) if not math.isinf(b) else (Fraction(10) ** 400 * (1 if b > 0 else -1))
            r = f_fcmp_d(fa.p, b)
            if s3(r) != s3(a - fb):
                R.fail("mpf_cmp_d", "cmp_d(%s,%r) = %d" % (a, b, r))
            return (kind, s3(a), s3(b), s3(a - fb), math.isinf(b))
        if kind == "fu":
            r = f_fcmp_ui(fa.p, b)
            if s3(r) != s3(a - b):
                R.fail("mpf_cmp_ui", "cmp_ui(%s,%d) = %d" % (a, b, r))
            return (kind, s3(a), s3(a - b))
        if kind == "fs":
            r = f_fcmp_si(fa.p, b)
            if s3(r) != s3(a - b):
                R.fail("mpf_cmp_si", "cmp_si(%s,%d) = %d" % (a, b, r))
            return (kind, s3(a), s3(b), s3(a - b))
        if kind == "fz":
            if f_fcmp_z is None:
                return None
            z = e["z"][0]
            z.set(b)
            r = f_fcmp_z(fa.p, z.p)
            if s3(r) != s3(a - b):
                R.fail("mpf_cmp_z", "cmp_z(%s,%x) = %d" % (a, b, r))
            return (kind, s3(a), s3(b), s3(a - b))
        # getters / fits on the stored value
        t = int(a.numerator // a.denominator) if a >= 0 else -int((-a).numerator // (-a).denominator)
        td = trunc_double(a)
        if td is not None and not math.isinf(td):
            r = f_fget_d(fa.p)
            if r != td:
                R.fail("mpf_get_d", "get_d(%s) = %r expected %r" % (a, r, td))
        ex = c_long(777)
        r = f_fget_d_2exp(byref(ex), fa.p)
        if a == 0:
            if r != 0.0 or ex.value != 0:
                R.fail("mpf_get_d_2exp", "zero: %r exp %d" % (r, ex.value))
        else:
            aa = abs(a)
            L = aa.numerator.bit_length() - aa.denominator.bit_length()
            if aa >= Fraction(2) ** L:
                L += 1
            sc = aa / Fraction(2) ** L           # in [0.5,1)
            mant = (sc.numerator << 53) // sc.denominator
            ed = s3(a) * math.ldexp(mant, -53)
            if r != ed or ex.value != L:
                R.fail("mpf_get_d_2exp", "(%s) = %r * 2^%d expected %r * 2^%d" % (a, r, ex.value, ed, L))
        for ty, (lo, hi) in TYPES.items():
            r = f_ffits[ty](fa.p)
            if bool(r) != (lo <= t <= hi):
                R.fail("mpf_fits_%s_p" % ty, "(%s) = %d (truncated value %d)" % (a, r, t))
        if LMIN <= t <= LMAX:
            r = f_fget_si(fa.p)
            if r != t:
                R.fail("mpf_get_si", "(%s) = %d expected %d" % (a, r, t))
        if 0 <= t <= M:
            r = f_fget_ui(fa.p)
            if r != t:
                R.fail("mpf_get_ui", "(%s) = %d expected %d" % (a, r, t))
        r = f_fint(fa.p)
        if bool(r) != (a.denominator == 1):
            R.fail("mpf_integer_p", "(%s) = %d" % (a, r))
        if S.v_mpf_sgn(fa.p) != s3(a):
            R.fail("mpf_sgn", "(%s)" % a)
        return (kind, s3(a), a.denominator == 1, tuple(lo <= t <= hi for lo, hi in TYPES.values()))

    sp.append(Space("mpf_compare_get_fits", list(range(len(FV))), fc_cases, fc_one,
                    "mpf_cmp on pairs of %d exact binary values; cmp_d against every double; cmp_ui/cmp_si/cmp_z; get_d, get_d_2exp, get_si/ui (when fitting), fits_* (8 types), integer_p, sgn" % len(FV)))
    return sp
