"""C17  Import/export and stream I/O round-trip in the documented format and report faults."""
import ctypes, math
from fractions import Fraction
from ctypes import c_void_p, c_long, c_ulong, c_int, c_size_t, c_char_p, byref, addressof, string_at, create_string_buffer
from .. import lib, alphabet as al
from ..explore import Space
from .C06 import to_str

ID = "C17"
LEVEL = "fault_enumeration"
RULE = ("(a) mpz_export/mpz_import over the WHOLE parameter space size 1..16 x order +-1 x endian -1/0/+1 x nails 0..8*size-1 x buffer misalignment 0..7 x "
        "values {0,1,PAT up to 5 limbs}: count, zero nail bits, bytes outside the written words untouched, round trip, allocated form; (b) "
        "mpz_out_raw/inp_raw and mpz/mpq/mpf out_str/inp_str through an in-memory stream: documented format, values and byte counts; (c) fault "
        "enumeration on an unbuffered cookie stream: EVERY truncation point of every input byte stream (EOF and read error) and EVERY failing-write "
        "position of every output (incl. gmp_fprintf), every 4-byte raw header over {00,01,7f,80,ff}^4 followed by 0..8 data bytes: return 0 / -1, "
        "no crash, allocator balanced after clear, destination reassignable. distinct_nontrivial = distinct (function, parameters / fault position "
        "class, outcome) tuples.")
RULE = RULE + (" " + 'Later additions: the whole size x nails x misalignment space in the quick tier; raw magnitudes with every count of leading zero bytes; an --enable-alloca=debug pass for fault paths between TMP_MARK and TMP_FREE; rationals whose multi-limb denominator has low limb 1.')
ASSUMPTIONS = ["a Python packer written from the manual is the reference for the export word format and the raw format",
               "a truncated TEXT stream may still hold a valid shorter number: return values are asserted against the reference parse of the prefix",
               "raw headers announcing more than 64 MiB are not generated"]
BUDGET = {"quick": 420, "thorough": 2400}
M, H = al.M, al.H


def passes(tier):
    # alloca-debug: every TMP block is a heap block of the installed allocator, so a return between TMP_MARK and TMP_FREE on a fault
    # path shows in the block accounting at any operand size (the cache entry is shared with C04 and C14)
    return ["pin", "alloca-debug"] if tier == "quick" else ["pin", "asan", "alloca-debug"]


def pack(v, order, size, endian, nails):
    """reference mpz_export: (count, bytes)"""
    nb = 8 * size - nails
    if v == 0:
        return 0, b""
    cnt = (v.bit_length() + nb - 1) // nb
    words = [(v >> (nb * i)) & ((1 << nb) - 1) for i in range(cnt)]      # least significant first
    if order == 1:
        words.reverse()
    out = bytearray()
    for w in words:
        b = w.to_bytes(size, "big" if endian == 1 else "little")
        out += b
    return cnt, bytes(out)


def spaces(tier, variant, seed):
    P = c_void_p
    quick = tier == "quick"
    sp = []
    S = lib.S
    f_export = lib.fn("mpz_export", c_void_p, c_void_p, c_void_p, c_int, c_size_t, c_int, c_size_t, P)
    f_import = lib.fn("mpz_import", None, P, c_size_t, c_int, c_size_t, c_int, c_size_t, c_void_p)
    f_out_raw = lib.fn("mpz_out_raw", c_size_t, c_void_p, P)
    f_inp_raw = lib.fn("mpz_inp_raw", c_size_t, P, c_void_p)
    f_zout = lib.fn("mpz_out_str", c_size_t, c_void_p, c_int, P)
    f_zinp = lib.fn("mpz_inp_str", c_size_t, P, c_void_p, c_int)
    f_qout = lib.fn("mpq_out_str", c_size_t, c_void_p, c_int, P)
    f_qinp = lib.fn("mpq_inp_str", c_size_t, P, c_void_p, c_int)
    f_fout = lib.fn("mpf_out_str", c_size_t, c_void_p, c_int, c_size_t, P)
    f_finp = lib.fn("mpf_inp_str", c_size_t, P, c_void_p, c_int)
    f_fprintf = lib.sym("gmp_fprintf")
    f_fprintf.restype = c_int
    f_zset_ui = lib.fn("mpz_set_ui", None, P, c_ulong)
    pool = {}

    def env():
        if not pool:
            pool["z"] = [lib.Z() for _ in range(3)]
            pool["q"] = [lib.Q() for _ in range(2)]
            pool["f"] = [lib.F(128), lib.F(128)]
            pool["vs"] = S.v_stream_new()
            pool["buf"] = create_string_buffer(1 << 16)
        return pool

    VALS = [0, 1]
    for n in (1, 2, 3, 5):
        p = al.PAT(n, seed)
        VALS += [p["ones"], p["dense"], p["bittop"], p["0101"], p["Bn-1_pow+1"]]
    VALS = sorted(set(VALS))

    # ---------------- (a) export / import ----------------
    def ex_cases(blk):
        size, order = blk
        for endian in (-1, 0, 1):
            for nails in range(0, 8 * size):
                for mis in range(8):
                    for vi in range(len(VALS)):
                        yield (size, order, endian, nails, mis, vi)

    def ex_one(case, R):
        size, order, endian, nails, mis, vi = case
        e = env()
        v = VALS[vi]
        z = e["z"][0]
        z.set(v)
        cnt, data = pack(v, order, size, endian, nails)
        buf = e["buf"]
        need = len(data)
        ctypes.memset(buf, 0xEE, need + 64)
        base = addressof(buf)
        # choose an address with the requested misalignment
        start = base + 16 + ((mis - (base + 16)) % 8)
        off = start - base
        c = c_size_t(12345)
        r = f_export(start, byref(c), order, size, endian, nails, z.p)
        raw = buf.raw[:need + 64]
        if c.value != cnt or (r != start):
            R.fail("mpz_export", "size %d order %d endian %d nails %d: count %d expected %d" % (size, order, endian, nails, c.value, cnt))
        if raw[off:off + need] != data:
            R.fail("mpz_export", "size %d order %d endian %d nails %d value %x: wrong bytes" % (size, order, endian, nails, v))
        if raw[:off] != b"\xee" * off or raw[off + need:] != b"\xee" * (64 - off):
            R.fail("mpz_export", "size %d order %d endian %d nails %d: wrote outside count*size bytes" % (size, order, endian, nails))
        if z.get() != v:
            R.fail("mpz_export", "operand modified")
        # import back from the (misaligned) buffer
        z2 = e["z"][1]
        z2.set(-5, alloc=1)
        f_import(z2.p, cnt, order, size, endian, nails, start)
        if z2.get() != v or z2.wf():
            R.fail("mpz_import", "size %d order %d endian %d nails %d: got %x expected %x (%s)" % (size, order, endian, nails, z2.get(), v, z2.wf()))
        # import ignores nail bits that are set and leading zero words
        if nails and cnt and vi % 3 == 0:
            dirty = bytearray(data)
            nb = 8 * size - nails
            for w in range(cnt):
                word = int.from_bytes(dirty[w * size:(w + 1) * size], "big" if endian == 1 else "little")
                word |= ((1 << nails) - 1) << nb
                dirty[w * size:(w + 1) * size] = word.to_bytes(size, "big" if endian == 1 else "little")
            ctypes.memmove(start, bytes(dirty), need)
            f_import(z2.p, cnt, order, size, endian, nails, start)
            if z2.get() != v:
                R.fail("mpz_import", "size %d nails %d: nail bits were not ignored" % (size, nails))
        if vi % 4 == 1:
            # allocated form: rop == NULL -> block of count*size bytes from the current allocator
            c2 = c_size_t(0)
            p2 = f_export(None, byref(c2), order, size, endian, nails, z.p)
            if c2.value != cnt:
                R.fail("mpz_export", "allocated: count %d expected %d" % (c2.value, cnt))
            if p2:
                got = string_at(p2, need)
                bs = S.v_block_size(p2)
                if got != data:
                    R.fail("mpz_export", "allocated: wrong bytes")
                if bs != need and not (need == 0):
                    R.fail("mpz_export", "allocated block of %d bytes for %d words of %d bytes" % (bs, cnt, size))
                S.v_free(p2, bs if bs != (1 << 64) - 1 else need)
        return (size, order, endian, nails % 8, nails // 8, mis, cnt if cnt < 4 else 4)

    sp.append(Space("export_import", [(size, order) for size in range(1, 17) for order in (1, -1)], ex_cases, ex_one,
                    "mpz_export/mpz_import: size 1..16 x order x endian x nails x misalignment x %d values (whole space for size<=8, nail/misalignment edges above in quick; everything in thorough)" % len(VALS)))

    # ---------------- (b)+(c) raw format with faults ----------------
    def raw_bytes(v):
        a = abs(v)
        n = (a.bit_length() + 7) // 8
        body = a.to_bytes(n, "big")
        sz = -n if v < 0 else n
        return (sz & 0xFFFFFFFF).to_bytes(4, "big") + body

    RV = sorted(set(VALS + [-x for x in VALS] + [255, 256, -255, 65535, 1 << 56, (1 << 64) - 1, 1 << 64, -(1 << 64)]))

    def rw_cases(blk):
        i = blk
        yield ("roundtrip", RV[i], 0, 0)
        n = len(raw_bytes(RV[i]))
        for k in range(0, n):
            yield ("trunc", RV[i], k, 0)
            yield ("trunc", RV[i], k, 1)
            yield ("wfail", RV[i], k, 0)

    def leak_check(R, name, before):
        after = lib.live_blocks()
        if after != before:
            R.fail(name, "live blocks %d -> %d across the call sequence (leak or double free)" % (before, after))
        if lib.alloc_errors():
            R.fail(name, "allocator contract: " + lib.alloc_msg())
            S.v_reset_errors()

    def rw_one(case, R):
        kind, v, k, aserr = case
        e = env()
        vs = e["vs"]
        data = raw_bytes(v)
        if kind == "roundtrip":
            z = e["z"][0]
            z.set(v)
            fp = S.v_open_write(vs, -1, 0)
            n = f_out_raw(fp, z.p)
            S.v_fclose(fp)
            got = string_at(S.v_stream_data(vs), S.v_stream_len(vs)) if S.v_stream_len(vs) else b""
            if got != data or n != len(data):
                R.fail("mpz_out_raw", "value %x: wrote %s (returned %d), documented format is %s" % (v, got.hex(), n, data.hex()))
            z2 = e["z"][1]
            z2.set(99, alloc=1)
            fp = S.v_open_read(vs, data + b"\x55\xaa", len(data) + 2, -1, 0, 0, 0)
            n = f_inp_raw(z2.p, fp)
            nxt = S.v_getc(fp)
            S.v_fclose(fp)
            if n != len(data) or z2.get() != v or z2.wf() or nxt != 0x55:
                R.fail("mpz_inp_raw", "value %x: returned %d (expected %d), value %x, next byte %x, %s" % (v, n, len(data), z2.get(), nxt, z2.wf()))
            # short reads that do deliver everything (1 byte per read call) must still succeed
            fp = S.v_open_read(vs, data, len(data), -1, 0, 1, 0)
            n = f_inp_raw(z2.p, fp)
            S.v_fclose(fp)
            if n != len(data) or z2.get() != v:
                R.fail("mpz_inp_raw", "value %x delivered one byte per read call: returned %d, value %x" % (v, n, z2.get()))
            return (kind, al.sgn(v), len(data))
        if kind == "trunc":
            # fresh destination so that the allocator balance after clear can be checked
            before = lib.live_blocks()
            z = lib.Z(7)
            fp = S.v_open_read(vs, data, len(data), k, aserr, 0, 0)
            n = f_inp_raw(z.p, fp)
            S.v_fclose(fp)
            if n != 0:
                R.fail("mpz_inp_raw", "stream of %d bytes ended after %d (%s): returned %d instead of 0" % (len(data), k, "error" if aserr else "EOF", n))
            # the destination can be reassigned and cleared
            f_zset_ui(z.p, 42)
            if z.get() != 42 or z.wf():
                R.fail("mpz_inp_raw", "destination cannot be reassigned after a failed read at byte %d: %s" % (k, z.wf()))
            z.clear()
            z.s.d = None
            leak_check(R, "mpz_inp_raw", before)
            return (kind, k < 4, aserr)
        # write failing at byte k
        z = e["z"][0]
        z.set(v)
        before = lib.live_blocks()
        fp = S.v_open_write(vs, k, 0)
        n = f_out_raw(fp, z.p)
        S.v_fclose(fp)
        if n != 0:
            R.fail("mpz_out_raw", "write failed at byte %d of %d but %d was returned" % (k, len(data), n))
        if z.get() != v:
            R.fail("mpz_out_raw", "operand modified")
        leak_check(R, "mpz_out_raw", before)
        return (kind, k < 4)

    sp.append(Space("raw_io_faults", list(range(len(RV))), rw_cases, rw_one,
                    "mpz_out_raw/inp_raw: documented format and round trip; every truncation point (EOF and error) of every stream; every failing-write position"))

    HB = (0x00, 0x01, 0x7f, 0x80, 0xff)

    def hd_cases(blk):
        b0, b1 = blk
        for b2 in HB:
            for b3 in HB:
                for nd in range(0, 9):
                    yield (b0, b1, b2, b3, nd)

    def hd_one(case, R):
        b0, b1, b2, b3, nd = case
        hdr = bytes((b0, b1, b2, b3))
        sz = int.from_bytes(hdr, "big", signed=True)
        if abs(sz) > (64 << 20):
            return None
        e = env()
        body = bytes(((i * 37 + 1) & 0xFF) for i in range(nd))
        if nd:
            body = bytes([0]) + body[1:] if (b3 & 1) else body      # leading zero byte variant
        data = hdr + body
        before = lib.live_blocks()
        z = lib.Z(3)
        fp = S.v_open_read(e["vs"], data, len(data), -1, 0, 0, 0)
        n = f_inp_raw(z.p, fp)
        S.v_fclose(fp)
        a = abs(sz)
        if a <= nd:
            ev = int.from_bytes(body[:a], "big")
            if sz < 0:
                ev = -ev
            if n != 4 + a or z.get() != ev or z.wf():
                R.fail("mpz_inp_raw", "header %s + %d data bytes: returned %d, value %x expected %x (%s)" % (hdr.hex(), nd, n, z.get(), ev, z.wf()))
            cls = "ok"
        else:
            if n != 0:
                R.fail("mpz_inp_raw", "header %s announces %d bytes, only %d follow: returned %d instead of 0" % (hdr.hex(), a, nd, n))
            cls = "short"
        f_zset_ui(z.p, 5)
        if z.get() != 5:
            R.fail("mpz_inp_raw", "destination cannot be reassigned after header %s" % hdr.hex())
        z.clear()
        z.s.d = None
        leak_check(R, "mpz_inp_raw", before)
        return ("hdr", cls, min(a, 9), sz < 0, nd)

    # non-canonical magnitudes: any number of leading zero bytes (whole zero limbs at the top after reading) followed by any tail
    def lz_cases(blk):
        total = blk
        for nz in range(0, total + 1):
            for tail in (0, 1, 2):
                for neg in (0, 1):
                    yield (total, nz, tail, neg)

    def lz_one(case, R):
        total, nz, tail, neg = case
        e = env()
        rest = total - nz
        body = bytes(nz) + bytes((({0: 0x01, 1: 0xFF, 2: 0x80}[tail] if i == 0 else (i * 29 + 7) & 0xFF) for i in range(rest)))
        hdr = ((-total if neg else total) & 0xFFFFFFFF).to_bytes(4, "big")
        data = hdr + body + b"tail"
        ev = int.from_bytes(body, "big")
        if neg:
            ev = -ev
        before = lib.live_blocks()
        z = lib.Z(-12345678901234567890123)
        fp = S.v_open_read(e["vs"], data, len(data), -1, 0, 0, 0)
        n = f_inp_raw(z.p, fp)
        nxt = S.v_getc(fp)
        S.v_fclose(fp)
        if n != 4 + total or z.get() != ev or z.wf() or nxt != ord("t"):
            R.fail("mpz_inp_raw", "%d-byte magnitude with %d leading zero bytes (sign %d): returned %d, value %s, %s, next byte %d" % (total, nz, -1 if neg else 1, n, "ok" if z.get() == ev else "WRONG", z.wf() or "well formed", nxt))
        z.clear()
        z.s.d = None
        leak_check(R, "mpz_inp_raw", before)
        return ("lz", total, min(nz, 17), tail, neg)

    sp.append(Space("raw_leading_zero_bytes", list(range(0, 41)) + [64, 65, 127, 128, 129], lz_cases, lz_one,
                    "mpz_inp_raw on magnitudes of 0..40 (and 64..129) bytes with EVERY count of leading zero bytes (non-canonical streams; whole zero limbs on top), both signs: value, normalised result, byte count, stream position"))

    sp.append(Space("raw_headers", [(a, b) for a in HB for b in HB], hd_cases, hd_one,
                    "mpz_inp_raw on every 4-byte header over {00,01,7f,80,ff}^4 (announced size <= 64 MiB) followed by 0..8 data bytes"))

    # ---------------- text streams ----------------
    ZT = [0, 1, -1, 255, -256, 10 ** 20, -(10 ** 20) - 7, (1 << 64), -(1 << 130) + 1, al.PAT(4)["dense"]]
    QT = [Fraction(0), Fraction(1), Fraction(-1, 2), Fraction(22, 7), Fraction(-(1 << 64) - 1, 3), Fraction(10 ** 20, 10 ** 19 + 1), Fraction(-255, 256), Fraction(1 << 100, 3),
          # denominators of several limbs whose LOW limb alone is 1, 2, 0: "is the denominator 1?" must look at all of it
          Fraction(-7, (1 << 64) + 1), Fraction(5, (3 << 64) + 1), Fraction(1, (1 << 128) + 1), Fraction(3, (1 << 64) + 2), Fraction(-9, 1 << 64), Fraction(11, (1 << 65) + 1)]
    FT = [Fraction(0), Fraction(1), Fraction(-3, 2), Fraction(5, 8), Fraction(-1234567), Fraction(1 << 70), Fraction(-1, 1 << 20), Fraction(255 * 16 ** 5), Fraction(3, 1 << 40)]
    TB = (2, 10, 16, 36, 62, -16)
    TBF = (2, 10, 16, 36)      # mpf_out_str documents bases 2..36; its exponent marker is ambiguous for negative bases

    def tx_cases(blk):
        ty, base = blk
        vals = {"z": ZT, "q": QT, "f": FT}[ty]
        for i in range(len(vals)):
            if ty == "f" and base not in TBF:
                continue
            yield (ty, base, i, "roundtrip", 0, 0)
            # the exact byte stream is produced first; faults are then enumerated over it inside one case for the write side
            yield (ty, base, i, "wfail_all", 0, 0)
            yield (ty, base, i, "trunc_all", 0, 0)
            yield (ty, base, i, "trunc_all", 0, 1)

    def out_call(ty, fp, base, obj):
        if ty == "z":
            return f_zout(fp, base, obj.p)
        if ty == "q":
            return f_qout(fp, base, obj.p)
        return f_fout(fp, base, 0, obj.p)

    def inp_call(ty, obj, fp, base):
        if ty == "z":
            return f_zinp(obj.p, fp, abs(base))
        if ty == "q":
            return f_qinp(obj.p, fp, abs(base))
        # mpf_out_str writes the exponent in decimal: it is read back with a negative base
        return f_finp(obj.p, fp, -abs(base))

    def setobj(e, ty, v, idx=0):
        if ty == "z":
            o = e["z"][idx]
            o.set(v)
        elif ty == "q":
            o = e["q"][idx]
            o.set(v.numerator, v.denominator)
        else:
            o = e["f"][idx]
            o.set_frac(v)
        return o

    def getobj(ty, o):
        return o.get()

    def expected_text(ty, v, base):
        if ty == "z":
            return to_str(v, base)
        if ty == "q":
            return to_str(v.numerator, base) if v.denominator == 1 else to_str(v.numerator, base) + "/" + to_str(v.denominator, base)
        return None

    def tx_one(case, R):
        ty, base, i, kind, _, aserr = case
        e = env()
        vs = e["vs"]
        v = {"z": ZT, "q": QT, "f": FT}[ty][i]
        o = setobj(e, ty, v, 0)
        fp = S.v_open_write(vs, -1, 0)
        n = out_call(ty, fp, base, o)
        S.v_fclose(fp)
        ln = S.v_stream_len(vs)
        text = string_at(S.v_stream_data(vs), ln) if ln else b""
        name = {"z": "mpz", "q": "mpq", "f": "mpf"}[ty]
        if kind == "roundtrip":
            if n != len(text) or n == 0:
                R.fail(name + "_out_str", "returned %d, wrote %d bytes %r" % (n, len(text), text[:40]))
            et = expected_text(ty, v, base)
            if et is not None and text.decode("latin1") != et:
                R.fail(name + "_out_str", "value %s base %d: wrote %r expected %r" % (v, base, text[:50], et[:50]))
            o2 = setobj(e, ty, Fraction(77) if ty != "z" else 77, 1)
            fp = S.v_open_read(vs, text + b" ;", len(text) + 2, -1, 0, 0, 0)
            r = inp_call(ty, o2, fp, base)
            S.v_fclose(fp)
            if r != len(text) or getobj(ty, o2) != v:
                R.fail(name + "_inp_str", "read back %r base %d: returned %d (expected %d), value %s expected %s" % (text[:40], base, r, len(text), getobj(ty, o2), v))
            if ty == "q" and o2.wf(canonical=False):
                R.fail("mpq_inp_str", "ill-formed")
            if ty == "f" and o2.wf():
                R.fail("mpf_inp_str", "format: " + o2.wf())
            # leading white space is skipped and counted
            fp = S.v_open_read(vs, b" \n\t" + text, len(text) + 3, -1, 0, 0, 0)
            r = inp_call(ty, o2, fp, base)
            S.v_fclose(fp)
            if r != len(text) + 3 or getobj(ty, o2) != v:
                R.fail(name + "_inp_str", "with leading white space: returned %d (expected %d)" % (r, len(text) + 3))
            return (ty, base, kind, len(text))
        if kind == "wfail_all":
            for k in range(len(text)):
                before = lib.live_blocks()
                fp = S.v_open_write(vs, k, 0)
                r = out_call(ty, fp, base, o)
                S.v_fclose(fp)
                if r != 0:
                    R.fail(name + "_out_str", "value %s base %d: write failed at byte %d of %d but %d was returned" % (v, base, k, len(text), r))
                leak_check(R, name + "_out_str", before)
                R.count("fault_positions")
            if getobj(ty, o) != v:
                R.fail(name + "_out_str", "operand modified")
            return (ty, base, kind, len(text))
        # every truncation point of the input stream
        from .C06 import digit_value
        for k in range(len(text)):
            prefix = text[:k]
            before = lib.live_blocks()
            if ty == "z":
                d = lib.Z(5)
            elif ty == "q":
                d = lib.Q(Fraction(5))
            else:
                d = lib.F(128)
                d.set_frac(Fraction(5))
            fp = S.v_open_read(vs, text, len(text), k, aserr, 0, 0)
            r = inp_call(ty, d, fp, base)
            S.v_fclose(fp)
            R.count("fault_positions")
            ps = prefix.decode("latin1")
            body = ps[1:] if ps.startswith("-") else ps
            if body == "":
                if r != 0:
                    R.fail(name + "_inp_str", "stream ended after %d bytes (%r): returned %d instead of 0" % (k, ps, r))
            elif ty == "z" or (ty == "q" and "/" not in body):
                # the prefix is itself a complete shorter integer: it is read as such
                ab = abs(base)
                val = 0
                for ch in body:
                    val = val * ab + digit_value(ch, ab)
                if ps.startswith("-"):
                    val = -val
                if r != k or d.get() != val:
                    R.fail(name + "_inp_str", "stream truncated to %r: returned %d, value %s (a valid shorter number, expected %d and %d)" % (ps, r, d.get(), k, val))
            elif ty == "q" and body.endswith("/"):
                if r != 0:
                    R.fail("mpq_inp_str", "stream ended right after the slash (%r): returned %d instead of 0" % (ps, r))
            # other prefixes (partial denominators, floats cut inside mantissa/exponent) are valid shorter numbers or
            # unspecified; only robustness is asserted for them
            if r not in (0, k):
                R.fail(name + "_inp_str", "truncated stream %r: returned %d, neither 0 nor the %d bytes available" % (ps, r, k))
            # the destination can still be reassigned and cleared
            if ty == "z":
                d.set(9)
            elif ty == "q":
                d.set(9, 4)
            else:
                d.set_frac(Fraction(9))
            d.clear()
            if ty == "q":
                d.s.num.d = None
            else:
                d.s.d = None
            leak_check(R, name + "_inp_str", before)
        return (ty, base, kind, aserr, len(text))

    sp.append(Space("text_io_faults", [(ty, b) for ty in "zqf" for b in TB], tx_cases, tx_one,
                    "mpz/mpq/mpf out_str -> inp_str through a stream (values, byte counts, leading white space); write failing at EVERY byte; stream ending (EOF/error) after EVERY byte"))

    # ---------------- gmp_fprintf with failing writes ----------------
    FMT = [(b"%Zd|%Qx|%s", "zqs"), (b"[%20Zd]", "z"), (b"%Qd", "q"), (b"%Fe", "f"), (b"abc %d %Zx\n", "iz")]

    def pf_cases(blk):
        i = blk
        for vi in range(len(ZT)):
            yield (i, vi)

    def pf_one(case, R):
        i, vi = case
        e = env()
        vs = e["vs"]
        fmt, kinds = FMT[i]
        z = setobj(e, "z", ZT[vi], 0)
        q = setobj(e, "q", QT[vi % len(QT)], 0)
        f = setobj(e, "f", FT[vi % len(FT)], 0)
        args = []
        for kch in kinds:
            args.append({"z": c_void_p(z.p), "q": c_void_p(q.p), "f": c_void_p(f.p), "s": c_char_p(b"tail"), "i": c_int(-42)}[kch])
        fp = S.v_open_write(vs, -1, 0)
        n = f_fprintf(c_void_p(fp), fmt, *args)
        S.v_fclose(fp)
        ln = S.v_stream_len(vs)
        if n != ln or n <= 0:
            R.fail("gmp_fprintf", "format %r: returned %d, wrote %d bytes" % (fmt, n, ln))
        for k in range(ln):
            before = lib.live_blocks()
            fp = S.v_open_write(vs, k, 0)
            r = f_fprintf(c_void_p(fp), fmt, *args)
            S.v_fclose(fp)
            R.count("fault_positions")
            if r != -1:
                R.fail("gmp_fprintf", "format %r: write failed at byte %d of %d but %d was returned instead of -1" % (fmt, k, ln, r))
            leak_check(R, "gmp_fprintf", before)
        return ("fprintf", i, ln)

    sp.append(Space("gmp_fprintf_faults", list(range(len(FMT))), pf_cases, pf_one, "gmp_fprintf: byte count on success, -1 when the write fails at each byte position, no leak"))
    return sp
