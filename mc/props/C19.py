"""C19  Random numbers stay in range, are reproducible from the seed, copies equivalent."""
import itertools, ctypes
from fractions import Fraction
from ctypes import c_void_p, c_long, c_ulong, c_int, addressof, sizeof
from .. import lib, alphabet as al, mpnops as mo
from ..explore import Space

ID = "C19"
LEVEL = "model_checking"
RULE = ("stateless enumeration of call histories on real generator objects: every sequence of <= D operations from the alphabet {mpz_urandomb(n), "
        "mpz_rrandomb(n), mpz_urandomm(m), gmp_urandomb_ui(k), gmp_urandomm_ui(m), mpn_urandomb/urandomm/randomb/rrandom, mpf_urandomb, reseed} "
        "on every generator kind (MT, default, lc_2exp with several (a,c,m2exp), lc_2exp_size 32..128) and seed; each history is executed on a "
        "state, on a same-seeded twin and on gmp_randinit_set copies taken at EVERY position, outputs must be identical and in range; full-orbit "
        "exploration of lc_2exp generators with m2exp = 8..20 (all 2^m states traversed through the real generator: output value frequencies, "
        "per-bit balance and per-bit period); fixed wide-tolerance frequency checks for MT and the table LC generators (declared non-"
        "exhaustive). states = distinct (generator kind, seed, history prefix) nodes, transitions = generator calls.")
RULE = RULE + (" " + 'Later additions: copies and twins over draws longer than the MT buffer; re-seeded states against fresh ones; mpn_urandomm on moduli B^k; mpz_urandomm / gmp_urandomm_ui / gmp_urandomb_ui must reach both halves of their range; health of every lc_2exp_size table entry; mpf destinations preloaded limb by limb.')
ASSUMPTIONS = ["uniformity of MT and the 32..128-bit table LC generators is bounded-sample evidence with very wide tolerance (>= 8 sigma), not an exhaustive statement",
               "the obsolete global-state functions (mpz_random, mpn_random ...) are excluded as in the property"]
BUDGET = {"quick": 300, "thorough": 1800}
M, H = al.M, al.H
RSZ = 32


def passes(tier):
    return ["pin"] if tier == "quick" else ["pin", "asan"]


def spaces(tier, variant, seed):
    P = c_void_p
    quick = tier == "quick"
    sp = []
    f_init_default = lib.fn("gmp_randinit_default", None, P)
    f_init_mt = lib.fn("gmp_randinit_mt", None, P)
    f_init_lc = lib.fn("gmp_randinit_lc_2exp", None, P, P, c_ulong, c_ulong)
    f_init_lcs = lib.fn("gmp_randinit_lc_2exp_size", c_int, P, c_ulong)
    f_init_set = lib.fn("gmp_randinit_set", None, P, P)
    f_seed = lib.fn("gmp_randseed", None, P, P)
    f_seed_ui = lib.fn("gmp_randseed_ui", None, P, c_ulong)
    f_clear = lib.fn("gmp_randclear", None, P)
    f_ub_ui = lib.fn("gmp_urandomb_ui", c_ulong, P, c_ulong)
    f_um_ui = lib.fn("gmp_urandomm_ui", c_ulong, P, c_ulong)
    f_zub = lib.fn("mpz_urandomb", None, P, P, c_ulong)
    f_zum = lib.fn("mpz_urandomm", None, P, P, P)
    f_zrr = lib.fn("mpz_rrandomb", None, P, P, c_ulong)
    f_nub = lib.fn("mpn_urandomb", None, P, P, c_ulong)
    f_num = lib.fn("mpn_urandomm", None, P, P, P, c_long)
    f_nrb = lib.fn("mpn_randomb", None, P, P, c_long)
    f_nrr = lib.fn("mpn_rrandom", None, P, P, c_long)
    f_fub = lib.fn("mpf_urandomb", None, P, P, c_ulong)
    pool = {}

    def env():
        if not pool:
            pool["z"] = [lib.Z() for _ in range(3)]
            pool["A"] = mo.Arena(1024)
            pool["f"] = lib.F(256)
        return pool

    KINDS = [("mt",), ("default",), ("lc", 5, 1, 16), ("lc", 0x5851F42D4C957F2D, 1, 64), ("lc", (1 << 70) + 5, 12345, 100), ("lcs", 32), ("lcs", 64), ("lcs", 128), ("lc", 13, 7, 9)]
    SEEDS = [0, 1, 1 << 32, (1 << 64) + 1, al.PAT(5)["dense"]]

    def mkstate(kind, sd):
        st = (ctypes.c_char * RSZ)()
        p = addressof(st)
        e = env()
        if kind[0] == "mt":
            f_init_mt(p)
        elif kind[0] == "default":
            f_init_default(p)
        elif kind[0] == "lc":
            e["z"][2].set(kind[1])
            f_init_lc(p, e["z"][2].p, kind[2], kind[3])
        else:
            r = f_init_lcs(p, kind[1])
            assert r != 0
        if sd is not None:
            if sd <= M and sd % 2 == 0:
                f_seed_ui(p, sd)
            else:
                e["z"][2].set(sd)
                f_seed(p, e["z"][2].p)
        return st, p

    NB = [0, 1, 31, 32, 33, 63, 64, 65, 127, 128, 129, 1000]
    MODS = [1, 2, 3, 1 << 32, (1 << 32) + 1, M, (1 << 64), (1 << 64) + 1, (1 << 128) - 1, 10 ** 30]
    OPS = [("zub", n) for n in NB] + [("zrr", n) for n in (0, 1, 64, 65, 200)] + [("zum", m) for m in MODS] + \
          [("ubui", k) for k in (0, 1, 31, 32, 33, 63, 64)] + [("umui", m) for m in (1, 2, 3, 1 << 32, M, 1000003)] + \
          [("nub", n) for n in (1, 64, 65, 130)] + [("num", m) for m in (3, (1 << 64) + 1, (1 << 128) - 1, 1, 2, 1 << 63, 1 << 64, 1 << 128, (1 << 64) - 1)] + [("nrb", n) for n in (1, 2, 5)] + \
          [("nrr", n) for n in (1, 2, 5)] + [("fub", n) for n in (1, 53, 64, 100, 256, 0, 192, 193, 257, 1000)] + [("reseed", s) for s in (7, (1 << 80) + 3)]
    if quick:
        OPS_D = [o for o in OPS if o in (("zub", 1), ("zub", 64), ("zub", 65), ("zub", 1000), ("zrr", 65), ("zum", 3), ("zum", (1 << 64) + 1), ("ubui", 33), ("ubui", 64), ("umui", 3),
                                         ("umui", M), ("nub", 65), ("num", (1 << 64) + 1), ("num", 1 << 64), ("nrb", 2), ("nrr", 2), ("fub", 100), ("fub", 1000), ("fub", 0), ("reseed", 7))]
    else:
        OPS_D = OPS

    PRE = [(-1, 1), ((1 << 2048) - 1, None), (-(int("5a" * 200, 16)), None)]

    def do_op(R, p, op, tag, pre=0):
        """execute one generator call on state p; returns its observable output (checked for range).
        `pre` selects what the destination holds before the call: outputs must not depend on it."""
        e = env()
        k, a = op
        z = e["z"][0]
        if k in ("zub", "zrr", "zum"):
            z.set(PRE[pre][0], alloc=PRE[pre][1])
        if k == "zub":
            f_zub(z.p, p, a)
            v = z.get()
            if not (0 <= v < (1 << a)) or z.wf():
                R.fail("mpz_urandomb", "%s: n=%d gave %x (%s)" % (tag, a, v, z.wf()))
            return v
        if k == "zrr":
            f_zrr(z.p, p, a)
            v = z.get()
            if not (0 <= v < (1 << a) or (a == 0 and v == 0)) or z.wf():
                R.fail("mpz_rrandomb", "%s: n=%d gave %x (%s)" % (tag, a, v, z.wf()))
            return v
        if k == "zum":
            z1 = e["z"][1]
            z1.set(a)
            f_zum(z.p, p, z1.p)
            v = z.get()
            if not (0 <= v < a) or z.wf() or z1.get() != a:
                R.fail("mpz_urandomm", "%s: modulus %x gave %x" % (tag, a, v))
            return v
        if k == "ubui":
            v = f_ub_ui(p, a)
            if not (0 <= v < (1 << a)):
                R.fail("gmp_urandomb_ui", "%s: n=%d gave %x" % (tag, a, v))
            return v
        if k == "umui":
            v = f_um_ui(p, a)
            if not (0 <= v < a):
                R.fail("gmp_urandomm_ui", "%s: n=%d gave %d" % (tag, a, v))
            return v
        A = e["A"]
        G = mo.G
        if k == "nub":
            nl_ = (a + 63) // 64
            A.reset(nl_ + 2 * G)
            if pre:
                A.put(G, al.ones(nl_) if pre == 1 else 0, nl_)
            f_nub(A.addr(G), p, a)
            v = A.get(G, nl_)
            if v >> a or not A.untouched(nl_ + 2 * G, [(G, nl_)]):
                R.fail("mpn_urandomb", "%s: n=%d gave %x / wrote outside" % (tag, a, v))
            return v
        if k == "num":
            nl_ = al.nl(a)
            A.reset(2 * nl_ + 3 * G)
            A.put(2 * G + nl_, a, nl_)
            f_num(A.addr(G), p, A.addr(2 * G + nl_), nl_)
            v = A.get(G, nl_)
            if not (0 <= v < a) or A.get(2 * G + nl_, nl_) != a or not A.untouched(2 * nl_ + 3 * G, [(G, nl_), (2 * G + nl_, nl_)]):
                R.fail("mpn_urandomm", "%s: modulus %x gave %x / wrote outside" % (tag, a, v))
            return v
        if k in ("nrb", "nrr"):
            A.reset(a + 2 * G)
            (f_nrb if k == "nrb" else f_nrr)(A.addr(G), p, a)
            v = A.get(G, a)
            if v >> (64 * (a - 1)) == 0 or not A.untouched(a + 2 * G, [(G, a)]):
                R.fail("mpn_randomb" if k == "nrb" else "mpn_rrandom", "%s: n=%d: top limb zero or wrote outside (%x)" % (tag, a, v))
            return v
        if k == "fub":
            f = e["f"]
            # the destination's previous contents must not show through: zero, a full-width all-ones mantissa, a short negative value
            nl_f = f.s.prec + 1
            if pre == 1:
                f.set_raw((1 << (64 * nl_f)) - 1, 3, False)
            elif pre == 2:
                ctypes.memset(f.s.d, 0x5A, 8 * nl_f)
                f.s.size, f.s.exp = -1, -2
            else:
                ctypes.memset(f.s.d, 0, 8 * nl_f)          # every limb of the block zero, not only the size field
                f.s.size, f.s.exp = 0, 0
            f_fub(f.p, p, a)
            v = f.get()
            # (the mpf format of the result is C04's/C13's business, not asserted here)
            if not (0 <= v < 1):
                R.fail("mpf_urandomb", "%s: nbits=%d gave %s" % (tag, a, float(v)))
            elif v != 0:
                # at most nbits significant bits below the binary point (0, or more than the variable holds, means all it holds)
                room = 64 * (f.s.prec + 1)
                eff = a if 0 < a <= room else room
                if (v * (1 << eff)).denominator != 1:
                    R.fail("mpf_urandomb", "%s: nbits=%d gave more than nbits fractional bits" % (tag, a))
            return (v.numerator, v.denominator)
        if k == "reseed":
            e["z"][2].set(a)
            f_seed(p, e["z"][2].p)
            return None
        raise ValueError(k)

    D = 3 if quick else 3

    def hi_cases(blk):
        ki, si = blk
        n = len(OPS_D)
        for d in range(1, D + 1):
            for seq in itertools.product(range(n), repeat=d):
                if d == D and not quick and False:
                    pass
                yield (ki, si, seq)

    def hi_one(case, R):
        ki, si, seq = case
        kind, sd = KINDS[ki], SEEDS[si]
        tag = "%s seed %x history %s" % (kind, sd, [OPS_D[i] for i in seq])
        st1, p1 = mkstate(kind, sd)
        st2, p2 = mkstate(kind, sd)
        copies = []
        outs1 = []
        for pos, oi in enumerate(seq):
            # a copy taken at this position must continue identically
            c = (ctypes.c_char * RSZ)()
            f_init_set(addressof(c), p1)
            copies.append((pos, c))
            outs1.append(do_op(R, p1, OPS_D[oi], tag))
        outs2 = [do_op(R, p2, OPS_D[oi], tag, pre=1) for oi in seq]
        if outs1 != outs2:
            R.fail("determinism", "%s: two states seeded alike gave different outputs %s vs %s" % (tag, outs1, outs2))
        for pos, c in copies:
            pc = addressof(c)
            oc = [do_op(R, pc, OPS_D[oi], tag, pre=2) for oi in seq[pos:]]
            if oc != outs1[pos:]:
                R.fail("gmp_randinit_set", "%s: copy taken before call %d continued with %s, original gave %s" % (tag, pos, oc, outs1[pos:]))
            f_clear(pc)
        errs = lib.alloc_errors()
        f_clear(p1)
        f_clear(p2)
        if lib.alloc_errors() != errs or lib.alloc_errors():
            R.fail("gmp_randclear", "%s: allocator contract: %s" % (tag, lib.alloc_msg()))
            lib.S.v_reset_errors()
        R.count("states", len(seq))
        import zlib
        return (ki, si, seq[:2], zlib.crc32(repr(outs1).encode()) & 0xFF)

    hb = [(ki, si) for ki in range(len(KINDS)) for si in range(len(SEEDS))]
    if variant == "asan":
        hb = hb[::5]
    sp.append(Space("histories", hb, hi_cases, hi_one,
                    "every history of <= %d calls over %d operations x %d generator kinds x %d seeds: range of every output, twin-state determinism, randinit_set copy at every position" % (D, len(OPS_D), len(KINDS), len(SEEDS))))

    # copies and twins must stay in step over draws longer than the generator's internal buffer (624 words for MT)
    def ld_cases(blk):
        ki, si = blk
        for adv in (0, 1, 100, 495, 623, 624, 625, 1000):
            for chunk in (32, 64, 1000, 19968, 65, 130):
                yield (ki, si, adv, chunk)

    def ld_one(case, R):
        ki, si, adv, chunk = case
        kind, sd = KINDS[ki], SEEDS[si]
        tag = "%s seed %x advance %d words chunk %d bits" % (kind, sd, adv, chunk)
        st1, p1 = mkstate(kind, sd)
        st2, p2 = mkstate(kind, sd)
        e = env()
        z = e["z"][0]
        for _ in range(adv):
            f_ub_ui(p1, 32)
            f_ub_ui(p2, 32)
        c = (ctypes.c_char * RSZ)()
        f_init_set(addressof(c), p1)
        pc = addressof(c)
        total = 0
        i = 0
        while total < 64 * 1400:
            a = do_op(R, p1, ("zub", chunk), tag, pre=0)
            b = do_op(R, p2, ("zub", chunk), tag, pre=1)
            d = do_op(R, pc, ("zub", chunk), tag, pre=2)
            if a != b:
                R.fail("determinism", "%s: same-seeded states differ at draw %d (%d bits after the start)" % (tag, i, total))
                break
            if a != d:
                R.fail("gmp_randinit_set", "%s: the copy differs from the original at draw %d, %d bits after the copy" % (tag, i, total))
                break
            total += chunk
            i += 1
        f_clear(p1)
        f_clear(p2)
        f_clear(pc)
        R.count("states", 3 * i)
        return (ki, si, adv, chunk)

    # a used state that is seeded again must behave exactly like a fresh state given the same seed (the seed determines the stream)
    RS_SEEDS = list(range(0, 34)) + [5489, 1 << 32, (1 << 64) + 1, (1 << 19936) | 12345, al.PAT(5)["dense"], (1 << 19937) - 1]

    def rs_cases(blk):
        ki, part = blk
        for si, sd in enumerate(RS_SEEDS):
            if si % 4 != part:
                continue
            for adv in (0, 1, 100, 700):
                for s0 in (1, (1 << 19936) | 1):
                    yield (ki, si, adv, s0 % (1 << 64) if KINDS[ki][0] != "mt" and KINDS[ki][0] != "default" else s0)

    def rs_one(case, R):
        ki, si, adv, s0 = case
        kind, sd = KINDS[ki], RS_SEEDS[si]
        tag = "%s first seed %x.. advanced %d words, then seed %x.." % (kind, s0 % (1 << 64), adv, sd % (1 << 64))
        st1, p1 = mkstate(kind, s0)
        for _ in range(adv):
            f_ub_ui(p1, 32)
        e = env()
        e["z"][2].set(sd)
        f_seed(p1, e["z"][2].p)
        st2, p2 = mkstate(kind, None)
        e["z"][2].set(sd)
        f_seed(p2, e["z"][2].p)
        for i in range(720):
            a, b = f_ub_ui(p1, 32), f_ub_ui(p2, 32)
            if a != b:
                R.fail("gmp_randseed", "%s: 32-bit draw %d after the re-seed is %x, a fresh state seeded alike gives %x" % (tag, i, a, b))
                break
        a = do_op(R, p1, ("zub", 1000), tag, pre=0)
        b = do_op(R, p2, ("zub", 1000), tag, pre=1)
        if a != b:
            R.fail("gmp_randseed", "%s: 1000-bit draw differs from a fresh state seeded alike" % tag)
        f_clear(p1)
        f_clear(p2)
        R.count("states", 2)
        return (ki, si % 7, adv)

    # mpz_urandomm must be able to return values from the upper half of [0, n): for moduli whose upper half [2^(k-1), n) holds at
    # least a third of the range, 96 draws without a single such value have probability below 2^-55 for a uniform generator
    UM = [(1 << 65) - 1, (1 << 64) - 1, (1 << 128) - 1, 3 << 63, (1 << 65) + (1 << 64), (1 << 130) - 5, 7 << 61, (1 << 64) + (1 << 63) + 1, (3 << 126) + 1, (1 << 200) - 1, 1000003 << 50, (1 << 70) - (1 << 3)]

    def um_cases(blk):
        ki = blk
        for mi in range(len(UM)):
            for sd in (1, 77):
                yield (ki, mi, sd)

    def um_one(case, R):
        ki, mi, sd = case
        kind, m = KINDS[ki], UM[mi]
        st1, p1 = mkstate(kind, sd)
        e = env()
        z, z1 = e["z"][0], e["z"][1]
        z1.set(m)
        half = 1 << (m.bit_length() - 1)
        hi = lo = 0
        for i in range(96):
            z.set(-1, alloc=1)
            f_zum(z.p, p1, z1.p)
            v = z.get()
            if not (0 <= v < m) or z.wf():
                R.fail("mpz_urandomm", "%s modulus %x: %x out of range / ill-formed" % (kind, m, v))
                break
            if v >= half:
                hi += 1
            else:
                lo += 1
        f_clear(p1)
        if hi == 0 or lo == 0:
            R.fail("mpz_urandomm", "%s seed %d modulus %x: %d of 96 draws in the upper half [2^%d, n) and %d below it" % (kind, sd, m, hi, m.bit_length() - 1, lo))
        R.count("states", 96)
        return (ki, mi, hi > 20)

    sp.append(Space("urandomm_reaches_both_halves", list(range(len(KINDS))), um_cases, um_one,
                    "mpz_urandomm on 12 multi-limb moduli whose upper half holds at least a third of the range x generator kinds x 2 seeds: 96 draws hit both halves (declared statistical, failure probability below 2^-55 per case for a uniform generator)"))

    # gmp_urandomm_ui / gmp_urandomb_ui must reach the upper half of their range as well (a result narrowed to 32 bits stays "in range")
    UMU = [(1 << 48) + 1, (1 << 63) - 25, 1 << 40, M, (1 << 33) - 1, 3 << 40, (1 << 32) + 1, (1 << 63) + 1]

    def uu_cases(blk):
        ki = blk
        for mi in range(len(UMU) + 4):
            for sd in (1, 77):
                yield (ki, mi, sd)

    def uu_one(case, R):
        ki, mi, sd = case
        kind = KINDS[ki]
        st1, p1 = mkstate(kind, sd)
        hi = lo = 0
        if mi < len(UMU):
            m = UMU[mi]
            half = 1 << (m.bit_length() - 1)
            if m - half < m // 3:
                half = m // 2
            what = "gmp_urandomm_ui modulus %x" % m
            for i in range(96):
                v = f_um_ui(p1, m)
                if not 0 <= v < m:
                    R.fail("gmp_urandomm_ui", "%s modulus %x: %x out of range" % (kind, m, v))
                    break
                if v >= half:
                    hi += 1
                else:
                    lo += 1
        else:
            nb = (33, 48, 63, 64)[mi - len(UMU)]
            what = "gmp_urandomb_ui %d bits" % nb
            for i in range(96):
                v = f_ub_ui(p1, nb)
                if v >> nb:
                    R.fail("gmp_urandomb_ui", "%s %d bits: %x out of range" % (kind, nb, v))
                    break
                if v >> (nb - 1):
                    hi += 1
                else:
                    lo += 1
        f_clear(p1)
        if hi == 0 or lo == 0:
            R.fail(what.split()[0], "%s seed %d, %s: %d of 96 draws in the upper part of the range and %d below it" % (kind, sd, what, hi, lo))
        R.count("states", 96)
        return (ki, mi, hi > 20)

    sp.append(Space("urandom_ui_reaches_both_halves", list(range(len(KINDS))), uu_cases, uu_one,
                    "gmp_urandomm_ui on 8 moduli above 2^32 and gmp_urandomb_ui with 33/48/63/64 bits x generator kinds x 2 seeds: 96 draws hit both halves of the range (statistical, failure probability below 2^-55 per case)"))

    # every size lc_2exp_size accepts: the generator built from the table entry must keep producing varied output (a bad multiplier or
    # increment drives an LC generator into a short cycle or a fixed point after some steps)
    def th_cases(blk):
        lo = blk
        for size in range(lo, lo + 8):
            yield (size,)

    def th_one(case, R):
        (size,) = case
        st = (ctypes.c_char * RSZ)()
        p = addressof(st)
        if not f_init_lcs(p, size):
            return ("th", size, "rejected")
        f_seed_ui(p, 12345)
        nb = min(max(size, 8), 64)
        last, run, maxrun = None, 0, 0
        ones = [0] * nb
        N = 600
        for i in range(N):
            v = f_ub_ui(p, nb)
            if v == last:
                run += 1
                maxrun = max(maxrun, run)
            else:
                run = 0
            last = v
            for b in range(nb):
                if (v >> b) & 1:
                    ones[b] += 1
        f_clear(p)
        if maxrun >= 8:
            R.fail("gmp_randinit_lc_2exp_size", "size %d: %d consecutive identical %d-bit draws" % (size, maxrun + 1, nb))
        for b in range(nb):
            if not (N // 5 <= ones[b] <= N - N // 5):
                R.fail("gmp_randinit_lc_2exp_size", "size %d: bit %d of %d-bit draws set in %d of %d draws" % (size, b, nb, ones[b], N))
                break
        R.count("states", N)
        return ("th", size, maxrun)

    sp.append(Space("lc_size_table_health", list(range(1, 137, 8)), th_cases, th_one,
                    "every size 1..136 given to gmp_randinit_lc_2exp_size: 600 draws of min(size,64) bits show no 9 identical consecutive draws and every bit set between 20% and 80% of the time (wide, fixed tolerance)"))

    sp.append(Space("reseed_equals_fresh", [(ki, part) for ki in range(len(KINDS)) for part in range(4)], rs_cases, rs_one,
                    "a state seeded with s0, advanced by 0/1/100/700 words and seeded again with s gives the same 720 words (and a 1000-bit draw) as a fresh state seeded with s: s in 0..33, 5489, multi-limb seeds with bit 19936 set/clear"))

    sp.append(Space("long_draws_after_copy", [(ki, si) for ki in range(len(KINDS)) for si in (0, 3)], ld_cases, ld_one,
                    "state advanced by 0..1000 words, copied, then original, same-seeded twin and copy draw 90 kbit in chunks of 32/64/65/130/1000/19968 bits into destinations with different previous contents: identical streams"))

    # single-call range checks over the full op alphabet
    def r1_cases(blk):
        ki, si = blk
        for oi in range(len(OPS)):
            for rep in range(8):
                yield (ki, si, oi, rep)

    def r1_one(case, R):
        ki, si, oi, rep = case
        st, p = mkstate(KINDS[ki], SEEDS[si] + rep)
        v = None
        for _ in range(4):
            v = do_op(R, p, OPS[oi], "%s seed %x" % (KINDS[ki], SEEDS[si] + rep))
        f_clear(p)
        R.count("states", 4)
        return (ki, oi, v is not None and v == 0)

    sp.append(Space("ranges", [(ki, si) for ki in range(len(KINDS)) for si in range(len(SEEDS))], r1_cases, r1_one,
                    "every operation of the full alphabet (%d ops incl. n = 0, 1, 31..33, 63..65, 127..129, 1000) x kinds x seeds x 8 reseeds x 4 consecutive calls: range, fill length, non-zero top limb" % len(OPS)))

    # failing lc_2exp_size requests
    def sz_cases(blk):
        for s in range(0, 200):
            yield (s,)

    def sz_one(case, R):
        (s,) = case
        st = (ctypes.c_char * RSZ)()
        before = lib.live_blocks()
        r = f_init_lcs(addressof(st), s)
        if (r != 0) != (s <= 128):
            R.fail("gmp_randinit_lc_2exp_size", "size %d: returned %d" % (s, r))
        if r:
            v = f_ub_ui(addressof(st), 64)
            f_clear(addressof(st))
        if lib.live_blocks() != before:
            R.fail("gmp_randinit_lc_2exp_size", "size %d: %d blocks leaked" % (s, lib.live_blocks() - before))
        return (s <= 128, s // 16)

    sp.append(Space("lc_2exp_size_table", [0], sz_cases, sz_one, "gmp_randinit_lc_2exp_size for every size 0..199: success exactly up to 128, no leak on failure"))

    # ---- full orbit of small LC generators ----
    def ob_cases(blk):
        m2 = blk
        for a, c in ((5, 1), (13, 7), (4 * 1234 + 1, 3), ((1 << 30) + 5, 99)):
            yield (m2, a, c)

    def ob_one(case, R):
        m2, a, c = case
        st, p = mkstate(("lc", a, c, m2), 12345)
        half = m2 // 2
        N = 1 << m2
        counts = [0] * (1 << half)
        seqbits = []
        for i in range(N):
            v = f_ub_ui(p, half)
            if v >> half:
                R.fail("gmp_urandomb_ui", "lc(%d,%d,%d): value %x out of range for %d bits" % (a, c, m2, v, half))
                break
            counts[v] += 1
            if i < 4096:
                seqbits.append(v)
        f_clear(p)
        R.count("states", N)
        exp = N >> half
        lo, hi = min(counts), max(counts)
        if lo < exp * 0.5 or hi > exp * 1.5:
            R.fail("uniformity", "lc_2exp a=%d c=%d m2exp=%d: over the full orbit value counts range %d..%d, expected %d each" % (a, c, m2, lo, hi, exp))
        # per-bit balance and per-bit period (the weak low-order bits of the recurrence must not reach the caller)
        for b in range(half):
            ones = sum(cnt for val, cnt in enumerate(counts) if (val >> b) & 1)
            if abs(ones - N / 2) > N * 0.1:
                R.fail("uniformity", "lc_2exp a=%d c=%d m2exp=%d: output bit %d is set in %d of %d draws" % (a, c, m2, b, ones, N))
            bits = [(v >> b) & 1 for v in seqbits]
            for per in (1, 2, 4, 8, 16):
                if len(bits) > 4 * per and all(bits[i] == bits[i + per] for i in range(len(bits) - per)):
                    R.fail("uniformity", "lc_2exp a=%d c=%d m2exp=%d: output bit %d has period %d" % (a, c, m2, b, per))
                    break
        return (m2, a, lo == hi)

    sp.append(Space("lc_full_orbit", list(range(8, 17 if quick else 21, 2)) + [5, 7, 9, 11, 13, 15] + ([] if quick else [17, 19]), ob_cases, ob_one,
                    "lc_2exp generators with m2exp = 8..16 (quick) / 20 and odd 5..15 (19): all 2^m2exp draws of m2exp/2 bits from the real generator: value frequencies, per-bit balance, per-bit period > 16"))

    # ---- bounded-sample uniformity for the big generators (wide tolerance) ----
    def un_cases(blk):
        ki = blk
        for si in range(len(SEEDS)):
            for req in (1, 8, 32, 64, 70, 100, 130):
                yield (ki, si, req)

    def un_one(case, R):
        ki, si, req = case
        st, p = mkstate(KINDS[ki], SEEDS[si])
        e = env()
        z = e["z"][0]
        N = 1 << 13
        bitc = [0] * req
        buck = [0] * 16
        for _ in range(N):
            if req <= 64:
                v = f_ub_ui(p, req)
            else:
                z.set(PRE[_ % 3][0], alloc=PRE[_ % 3][1])
                f_zub(z.p, p, req)
                v = z.get()
            for b in range(req):
                bitc[b] += (v >> b) & 1
            if req >= 4:
                buck[v >> (req - 4)] += 1
        f_clear(p)
        R.count("states", N)
        for b in range(req):
            if abs(bitc[b] - N / 2) > N * 0.125:
                R.fail("uniformity", "%s seed %x: bit %d of %d-bit draws set %d of %d times" % (KINDS[ki], SEEDS[si], b, req, bitc[b], N))
        if req >= 4:
            for i, cnt in enumerate(buck):
                if abs(cnt - N / 16) > N / 16 * 0.4:
                    R.fail("uniformity", "%s seed %x: top-4-bit bucket %d of %d-bit draws hit %d times (expected %d)" % (KINDS[ki], SEEDS[si], i, req, cnt, N // 16))
        return (ki, si, req)

    kinds_big = [i for i, k in enumerate(KINDS) if k[0] in ("mt", "default", "lcs") or (k[0] == "lc" and k[3] >= 64)]
    sp.append(Space("sample_uniformity", kinds_big, un_cases, un_one,
                    "MT / default / lc_2exp_size 32,64,128 / 64- and 100-bit lc_2exp: 2^13 draws of 1,8,32,64,70,100,130 bits per seed (destination contents varied): every bit position within +-12.5%, every top-4-bit bucket within +-40% (non-exhaustive by nature)"))
    return sp
