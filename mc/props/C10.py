"""C10  Bitwise functions follow infinite two's-complement semantics."""
import itertools
from ctypes import c_void_p, c_long, c_ulong, c_int, c_uint64
from .. import lib, alphabet as al, mpnops as mo
from ..explore import Space

ID = "C10"
LEVEL = "exploration"
RULE = ("bounded-exhaustive enumeration: mpz operands = {0, +-EXH(L5) up to 3 limbs} (all ordered pairs) plus +-RUN(L3,n,2) for "
        "n up to 8/12 limbs (all ordered pairs: long low-zero runs under a negative sign, results that grow by a limb), all "
        "alias modes, bit indices on both sides of every limb/size/allocation edge; mpn logic ops for every n up to the bound "
        "over RUN contents. Oracle: Python's infinite two's-complement operators. distinct_nontrivial = distinct "
        "(function, operand signs and sizes, result size/sign or returned index class) signatures.")
RULE = RULE + (" " + 'Later additions: bit indices up to 2^64-2 for tstbit/scan0/scan1.')
ASSUMPTIONS = ["Python int bit operators are the reference model", "mp_bitcnt_t maximum is 2^64-1 (ULONG_MAX) on this ABI"]
BUDGET = {"quick": 300, "thorough": 2400}
UMAX = (1 << 64) - 1


def passes(tier):
    return ["pin"] if tier == "quick" else ["pin", "asan"]


_A = None
_F = {}


def _arena():
    global _A
    if _A is None:
        _A = mo.Arena(4096)
    return _A


def _f(name):
    f = _F.get(name)
    if f is None:
        f = _F[name] = mo.bind(lib.L, name)
    return f


def popcnt(x):
    return bin(x).count("1")


def scan1_ref(x, start):
    """lowest 1 bit at index >= start in the infinite two's complement string, or None"""
    y = x >> start
    if y == 0:
        return None
    return start + ((y & -y).bit_length() - 1)


def scan0_ref(x, start):
    return scan1_ref(~x, start)


def spaces(tier, variant, seed):
    P = c_void_p
    sp = []
    z3 = {n: lib.fn("mpz_" + n, None, P, P, P) for n in ("and", "ior", "xor")}
    zcom = lib.fn("mpz_com", None, P, P)
    zbit = {n: lib.fn("mpz_" + n, None, P, c_ulong) for n in ("setbit", "clrbit", "combit")}
    ztst = lib.fn("mpz_tstbit", c_int, P, c_ulong)
    zscan = {n: lib.fn("mpz_" + n, c_ulong, P, c_ulong) for n in ("scan0", "scan1")}
    zpop = lib.fn("mpz_popcount", c_ulong, P)
    zham = lib.fn("mpz_hamdist", c_ulong, P, P)
    pool = {}

    def zs():
        if not pool:
            pool["w"], pool["u"], pool["v"] = lib.Z(), lib.Z(), lib.Z()
        return pool["w"], pool["u"], pool["v"]

    ZV = al.zvals(3)
    ZR = al.zruns(4, 8 if tier == "quick" else 12)
    if variant == "asan":
        ZR = al.zruns(4, 6)
    ZALL = ZV + ZR
    pyop = {"and": lambda a, b: a & b, "ior": lambda a, b: a | b, "xor": lambda a, b: a ^ b}

    def l_cases(blk):
        op, i, which = blk
        a = ZALL[i]
        Bs = ZV if (i < len(ZV) and which == 0) else (ZR if which == 1 else [])
        if i >= len(ZV) and which == 0:
            Bs = ZV
        for b in Bs:
            for mode in (0, 1, 2):
                yield (op, a, b, mode)
            if a == b:
                yield (op, a, b, 3)
                yield (op, a, b, 4)

    def l_one(case, R):
        op, a, b, mode = case
        w, u, v = zs()
        e = pyop[op](a, b if mode < 3 else a)
        u.set(a)
        v.set(b)
        f = z3[op]
        if mode == 0:
            w.set((a ^ b) & 0xFF, alloc=1 + (abs(b) & 1))
            f(w.p, u.p, v.p)
            out = w
        elif mode == 1:
            f(u.p, u.p, v.p)
            out = u
        elif mode == 2:
            f(v.p, u.p, v.p)
            out = v
        elif mode == 3:
            f(u.p, u.p, u.p)
            out = u
        else:
            w.set(9, alloc=1)
            f(w.p, u.p, u.p)
            out = w
        g = out.get()
        if g != e:
            R.fail("mpz_" + op, "got %x expected %x (alias mode %d)" % (g, e, mode))
        m = out.wf()
        if m:
            R.fail("mpz_" + op, "result ill-formed: " + m)
        if out is not u and u.get() != a:
            R.fail("mpz_" + op, "input u modified")
        if out is not v and mode < 3 and v.get() != b:
            R.fail("mpz_" + op, "input v modified")
        return (op, mode, al.sgn(a), al.sgn(b), al.nl(abs(a)), al.nl(abs(b)), al.nl(abs(e)), al.sgn(e))

    blocks = [(op, i, 0) for op in ("and", "ior", "xor") for i in range(len(ZALL))]
    blocks += [(op, i, 1) for op in ("and", "ior", "xor") for i in range(len(ZV), len(ZALL))]
    sp.append(Space("mpz_and_ior_xor", blocks, l_cases, l_one,
                    "mpz_and/ior/xor: all ordered pairs over ZV={0,+-EXH(L5)<=3 limbs} and ZR=+-RUN(L3,4..8,2), 5 alias modes"))

    def bit_indices(a, alloc):
        top = abs(a).bit_length()
        s = {0, 1, 62, 63, 64, 65, 127, 128, 129, 64 * alloc - 1, 64 * alloc, 64 * alloc + 1, top, top + 1, top + 64, 5000}
        if top:
            s.add(top - 1)
            s.add(top - 2 if top > 1 else 0)
        lowz = (abs(a) & -abs(a)).bit_length() - 1 if a else 0
        s.update({lowz, lowz + 1, max(lowz - 1, 0)})
        if tier != "quick":
            s.add(1 << 20)
        return sorted(x for x in s if x >= 0)

    def b_cases(blk):
        i = blk
        a = ZALL[i]
        n = al.nl(abs(a))
        for alloc in (max(n, 1), n + 1, n + 3):
            for idx in bit_indices(a, alloc):
                for op in ("setbit", "clrbit", "combit", "tstbit", "scan0", "scan1"):
                    yield (op, a, alloc, idx)
        # indices far beyond any operand, up to the largest bit index the type holds: only the functions that do not allocate.
        # 64*2^32 + k wraps a 32-bit limb index back into the operand; 2^38 and above is "bit 0 of limb 2^32"
        for idx in (1 << 20, (1 << 32) - 1, 1 << 32, (1 << 32) + 1, (1 << 38) - 1, 1 << 38, (1 << 38) + 1, (1 << 38) + 64, (1 << 38) + 64 * n + 3, (1 << 39) + 65, (1 << 44) + 129,
                    (1 << 63) - 1, 1 << 63, (1 << 63) + 64, UMAX - 64, UMAX - 1):
            for op in ("tstbit", "scan0", "scan1"):
                yield (op, a, max(n, 1), idx)
        for op in ("com", "com_ip", "popcount"):
            yield (op, a, max(n, 1), 0)

    def b_one(case, R):
        op, a, alloc, idx = case
        w, u, v = zs()
        u.set(a, alloc=alloc)
        if op in ("setbit", "clrbit", "combit"):
            e = a | (1 << idx) if op == "setbit" else (a & ~(1 << idx) if op == "clrbit" else a ^ (1 << idx))
            zbit[op](u.p, idx)
            g = u.get()
            if g != e:
                R.fail("mpz_" + op, "bit %d of %x: got %x expected %x" % (idx, a, g, e))
            m = u.wf()
            if m:
                R.fail("mpz_" + op, "ill-formed: " + m)
            return (op, al.sgn(a), al.nl(abs(a)), al.nl(abs(e)), idx >= 64 * alloc, idx // 64 - al.nl(abs(a)) if idx // 64 <= al.nl(abs(a)) + 1 else 9)
        if op == "tstbit":
            g = ztst(u.p, idx)
            e = (a >> idx) & 1
            if g != e:
                R.fail("mpz_tstbit", "bit %d of %x: got %d expected %d" % (idx, a, g, e))
            sg = (op, al.sgn(a), e, idx >= abs(a).bit_length())
        elif op in ("scan0", "scan1"):
            g = zscan[op](u.p, idx)
            e = scan0_ref(a, idx) if op == "scan0" else scan1_ref(a, idx)
            if e is None:
                e = UMAX
            if g != e:
                R.fail("mpz_" + op, "from %d in %x: got %d expected %d" % (idx, a, g, e))
            sg = (op, al.sgn(a), e == UMAX, idx >= abs(a).bit_length(), (e - idx) // 64 if e != UMAX else -1)
        elif op == "popcount":
            g = zpop(u.p)
            e = popcnt(a) if a >= 0 else UMAX
            if g != e:
                R.fail("mpz_popcount", "of %x: got %d expected %d" % (a, g, e))
            sg = (op, al.sgn(a), al.nl(abs(a)))
        else:
            out = u if op == "com_ip" else w
            if out is w:
                w.set(3, alloc=1)
            zcom(out.p, u.p)
            g = out.get()
            if g != ~a:
                R.fail("mpz_com", "of %x: got %x" % (a, g))
            m = out.wf()
            if m:
                R.fail("mpz_com", "ill-formed: " + m)
            sg = (op, al.sgn(a), al.nl(abs(a)), al.nl(abs(~a)))
        if op != "com_ip" and u.get() != a:
            R.fail("mpz_" + op, "input modified")
        return sg

    sp.append(Space("mpz_bits", list(range(len(ZALL))), b_cases, b_one,
                    "mpz_setbit/clrbit/combit/tstbit/scan0/scan1 at indices around every limb, size and allocation edge and the lowest set bit; mpz_com; mpz_popcount"))

    def h_cases(blk):
        i = blk
        a = ZALL[i]
        for b in (ZV if i >= len(ZV) else ZALL):
            yield (a, b)

    def h_one(case, R):
        a, b = case
        w, u, v = zs()
        u.set(a)
        v.set(b)
        g = zham(u.p, v.p)
        e = popcnt(a ^ b) if (a >= 0) == (b >= 0) else UMAX
        if g != e:
            R.fail("mpz_hamdist", "(%x,%x): got %d expected %d" % (a, b, g, e))
        if a == b:
            g2 = zham(u.p, u.p)
            if g2 != 0:
                R.fail("mpz_hamdist", "same object: got %d" % g2)
        if u.get() != a or v.get() != b:
            R.fail("mpz_hamdist", "input modified")
        return (al.sgn(a), al.sgn(b), al.nl(abs(a)), al.nl(abs(b)), e == UMAX, e == 0)

    sp.append(Space("mpz_hamdist", list(range(len(ZALL))), h_cases, h_one, "mpz_hamdist: all ordered pairs of ZV, ZR x ZV"))

    # ---- mpn logic ops ----
    N = 40 if tier == "quick" else 72
    if variant == "asan":
        N = 20
    LOGIC = ("and_n", "andn_n", "nand_n", "ior_n", "iorn_n", "nior_n", "xor_n", "xnor_n")

    def lg_cases(blk):
        op, n = blk
        if n <= 3:
            A = list(al.EXH(al.L5, n))
            Bs = A
        else:
            A = al.RUN_list(al.L5, n, 2)
            Bs = al.RUN_list(al.L3, n, 2 if n <= 12 else 1) + [int("0123456789abcdef" * n, 16), int("5a" * (8 * n), 16)]
        for a in A:
            for b in Bs:
                for mode in (0, 1, 2):
                    yield (op, n, a, b, mode)

    def lg_one(case, R):
        op, n, a, b, mode = case
        cls, ref = mo.REF[op]
        m = mo.run_n2(_arena(), _f(op), ref, n, a, b, mode)
        if m:
            R.fail("mpn_" + op, m)
        return (op, n, mode, ref(a, b, n)[1] == 0)

    sp.append(Space("mpn_logic", [(op, n) for n in range(1, N + 1) for op in LOGIC], lg_cases, lg_one,
                    "mpn_and_n/andn_n/nand_n/ior_n/iorn_n/nior_n/xor_n/xnor_n: n=1..%d, RUN(L5,n,2) x RUN(L3,n,2|1)+dense, 3 overlap modes" % N))

    npop = lib.fn("mpn_popcount", c_ulong, c_void_p, c_long)
    nham = lib.fn("mpn_hamdist", c_ulong, c_void_p, c_void_p, c_long)
    nscan = {k: lib.fn("mpn_" + k, c_ulong, c_void_p, c_ulong) for k in ("scan0", "scan1")}

    def np_cases(blk):
        n = blk
        A = al.RUN_list(al.L5, n, 3 if n <= 16 else 2) if n > 3 else list(al.EXH(al.L5, n))
        A = A + [v for v in al.PATL(n) if v not in A[:0]]
        for a in A:
            yield ("popcount", n, a, 0)
            yield ("hamdist", n, a, al.ones(n) ^ a)
            yield ("hamdist", n, a, a >> 1)
            yield ("hamdist", n, a, int("0123456789abcdef" * n, 16))
            for start in sorted({0, 1, 63, 64, 65, 64 * (n // 2), 64 * n - 1, max(64 * n - 65, 0)}):
                yield ("scan0", n, a, start)
                yield ("scan1", n, a, start)

    def np_one(case, R):
        op, n, a, b = case
        A = _arena()
        G = mo.G
        end = 3 * G + 2 * n + 2
        A.reset(end)
        A.put(G, a, n)
        if op == "popcount":
            g = npop(A.addr(G), n)
            e = popcnt(a)
            sg = (op, n, e == 0, e == 64 * n)
        elif op == "hamdist":
            A.put(2 * G + n, b, n)
            g = nham(A.addr(G), A.addr(2 * G + n), n)
            e = popcnt(a ^ b)
            sg = (op, n, e == 0, e == 64 * n)
        else:
            start = b
            # mpn_scan needs the sought bit to exist at or above start: plant a sentinel limb above the operand
            sent = 0 if op == "scan0" else al.M
            A.put(G + n, sent, 1)
            e = scan0_ref(a | (sent << (64 * n)), start) if op == "scan0" else scan1_ref(a | (sent << (64 * n)), start)
            g = nscan[op](A.addr(G), start)
            sg = (op, n, (e - start) // 64)
            if A.get(G + n, 1) != sent:
                R.fail("mpn_" + op, "memory modified")
            A.put(G + n, mo.CAN, 1)
        if g != e:
            R.fail("mpn_" + op, "n=%d a=%x b=%x: got %d expected %d" % (n, a, b, g, e))
        if A.get(G, n) != a or not A.untouched(end, [(G, n), (2 * G + n, n)] if op == "hamdist" else [(G, n)]):
            R.fail("mpn_" + op, "memory modified")
        return sg

    sp.append(Space("mpn_popcount_hamdist_scan", list(range(1, N + 1)), np_cases, np_one,
                    "mpn_popcount, mpn_hamdist, mpn_scan0/scan1 (sentinel limb above the operand so that the sought bit exists)"))
    return sp
