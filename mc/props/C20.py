"""C20  C++ class expressions evaluate to the same values as the C functions (generated programs)."""
import os, sys, json, time, subprocess, tempfile, shutil, itertools, math
from concurrent.futures import ThreadPoolExecutor
from fractions import Fraction
from .. import build, cxxgen as g, report

ID = "C20"
LEVEL = "exploration"
ENGINE = "cxx-program-generator"
TECHNIQUE = "bounded-exhaustive enumeration of well-typed C++ expression trees (programs), compiled against the tree's mpirxx.h and executed; differential against post-order C calls and the Python value of the tree"
RULE = ("every well-typed expression tree up to depth 2 over {three class variables, literals of every built-in type the header overloads (signed/"
        "unsigned char, short, int, long, float, double; compile-time constants 0,1,2 and non-constant values)} for mpz_class (operators + - * / % & | ^ "
        "<< >>, comparisons, unary - ~ +, abs, sqrt, gcd, lcm, sgn, cmp) and mpq_class (+ - * / << >>, comparisons, abs, unary -), every assignment "
        "target (fresh variable and each variable occurring in the tree), every compound assignment, ++/--; mpf_class on exactly representable "
        "values; constructors, get_str, get_si/ui/d, fits_*, stream insertion/extraction with manipulators against the C++ library's own "
        "formatting of the equal long. Every statement is compiled against the tree's mpirxx.h and run for several value rounds; the C++ result "
        "must equal (1) the post-order sequence of C calls in the same program and (2) the Python value of the tree. distinct_nontrivial = "
        "distinct statements (trees x target x assignment form) that compiled and ran.")
RULE = RULE + (" " + "Later additions: accessor aliasing (get_num/get_den of the assignment target); basefield combinations; extraction against mpf_set_str / the standard library's long extraction, into used targets; fixed-point float output in bases 16/8/10 against exact rounding; float insertion against libstdc++'s double formatting over an exactness table; left/internal adjustment with fill characters.")
ASSUMPTIONS = ["g++ of this image compiles the generated programs; mpf_class with inexact values is excluded (temporary precision is implementation-defined by the header)",
               "Python int / Fraction is the third witness for mpz_class and mpq_class"]
ROOT = os.path.dirname(os.path.dirname(os.path.dirname(os.path.abspath(__file__))))


def gen_z(tier):
    quick = tier == "quick"
    stmts = []       # (kind, expr, target, compound)
    d1 = g.z_depth1()
    for e in d1:
        vs = sorted(e.vars())
        stmts.append(("z", e, "r", None))
        for v in vs:
            stmts.append(("z", e, v, None))
    for e in g.z_cmp1():
        stmts.append(("zi", e, "r", None))
    inner = g.z_inner_small()
    outer = g.ZVARS + [g.ZLITS[5], g.ZLITS[8], g.ZLITS[18], g.ZNONCONST[0], g.ZLITS[16]]
    if quick:
        outer = g.ZVARS + [g.ZLITS[8], g.ZLITS[18], g.ZNONCONST[0]]
    d2 = g.z_depth2(inner, outer, ops=None if not quick else ["+", "-", "*", "/", "%", "&", "|"])
    for i, e in enumerate(d2):
        vs = sorted(e.vars())
        tgt = (["r"] + vs)[i % (len(vs) + 1)]
        stmts.append(("z", e, tgt, None))
    if not quick:
        # both operands depth 1
        for i, (x, y) in enumerate(itertools.product(inner[::3], inner[1::4])):
            op = g.ZBIN[i % len(g.ZBIN)]
            stmts.append(("z", g.Node(op, [x, y]), "r", None))
        # depth 3 with operator-class representatives at the third level
        for i, e in enumerate(d2[::7]):
            for op, leaf in (("+", g.ZVARS[i % 3]), ("*", g.ZLITS[8]), ("/", g.ZLITS[9]), ("&", g.ZNONCONST[0])):
                stmts.append(("z", g.Node(op, [e, leaf]), (["r", "a", "b", "c"])[i % 4] if (["r", "a", "b", "c"])[i % 4] in (["r"] + sorted(e.vars() | leaf.vars())) else "r", None))
    # compound assignments: target op= expr
    rhs = g.ZVARS + g.ZLITS + g.ZNONCONST + inner[::5]
    for op in g.ZBIN:
        for t in ("a", "b"):
            for e in rhs:
                stmts.append(("z", e, t, op))
    for op in g.ZSHIFT:
        for t in ("a", "c"):
            for s in g.SHIFTS:
                stmts.append(("z", s, t, op))
    return stmts


def gen_q(tier):
    quick = tier == "quick"
    ex, cmps, d1 = g.q_exprs(quick)
    stmts = []
    for i, e in enumerate(ex):
        vs = sorted(e.vars())
        if e in d1:
            stmts.append(("q", e, "r", None))
            for v in vs:
                stmts.append(("q", e, v, None))
        else:
            stmts.append(("q", e, (["r"] + vs)[i % (len(vs) + 1)], None))
    for e in cmps:
        stmts.append(("qi", e, "r", None))
    for op in g.QBIN:
        for t in ("a", "b"):
            for e in g.QVARS + g.QLITS:
                stmts.append(("q", e, t, op))
    for op in g.ZSHIFT:
        for s in g.SHIFTS:
            stmts.append(("q", s, "c", op))
    return stmts


MISC_SRC = r'''
#include <cstdio>
#include <cstdlib>
#include <climits>
#include <sstream>
#include <iomanip>
#include <string>
#include "mpir.h"
#include "mpirxx.h"
static long mism = 0, n = 0;
#define CHECK(id, cond) do { n++; if (!(cond)) { printf("M %s line %d\n", id, __LINE__); mism++; } } while (0)
template <class F> static std::string fmt_z(const mpz_class &z, F f) { std::ostringstream os; f(os); os << z; return os.str(); }
template <class F> static std::string fmt_l(long z, F f) { std::ostringstream os; f(os); os << z; return os.str(); }
int main() {
  static const long LV[] = {0, 1, -1, 7, -8, 255, -256, 65535, 1234567890L, -1234567890123L, LONG_MAX, LONG_MIN, LONG_MIN + 1, 4096, 8, 100};
  for (unsigned i = 0; i < sizeof LV / sizeof LV[0]; i++) {
    long v = LV[i];
    mpz_class z(v);
    mpz_t c; mpz_init_set_si(c, v);
    CHECK("ctor_si", mpz_cmp(z.get_mpz_t(), c) == 0);
    CHECK("get_si", z.get_si() == mpz_get_si(c));
    CHECK("get_ui", z.get_ui() == mpz_get_ui(c));
    CHECK("get_d", z.get_d() == mpz_get_d(c));
    CHECK("fits_slong", z.fits_slong_p() == (mpz_fits_slong_p(c) != 0));
    CHECK("fits_sint", z.fits_sint_p() == (mpz_fits_sint_p(c) != 0));
    CHECK("fits_ushort", z.fits_ushort_p() == (mpz_fits_ushort_p(c) != 0));
    CHECK("fits_ulong", z.fits_ulong_p() == (mpz_fits_ulong_p(c) != 0));
    for (int base : {2, 10, 16, 36, 62, -16}) {
      char *s = mpz_get_str(0, base, c);
      CHECK("get_str", z.get_str(base) == std::string(s));
      if (base > 0) { mpz_class y(s, base); CHECK("ctor_str", y == z); mpz_class w; CHECK("set_str", w.set_str(s, base) == 0 && w == z);
                      if (base == 10) { mpz_class u; u = std::string(s).c_str(); CHECK("assign_str", u == z); } }
      free(s);
    }
    { mpz_class y; CHECK("set_str_bad", y.set_str("12x", 10) == -1); }
    // stream insertion against the C++ library's own formatting of the equal long
    typedef void (*manip)(std::ostream &);
    manip M[] = {
      [](std::ostream &o) {}, [](std::ostream &o) { o << std::showpos; }, [](std::ostream &o) { o << std::setw(12); }, [](std::ostream &o) { o << std::setw(12) << std::left; },
      [](std::ostream &o) { o << std::setw(12) << std::internal << std::setfill('0'); }, [](std::ostream &o) { o << std::setw(12) << std::setfill('*') << std::showpos; },
      [](std::ostream &o) { o << std::setw(3) << std::right; }, [](std::ostream &o) { o << std::setw(12) << std::internal << std::showpos << std::setfill('_'); },
      [](std::ostream &o) { o << std::setw(12) << std::left << std::setfill('*'); }, [](std::ostream &o) { o << std::setw(12) << std::internal << std::setfill('*'); },
      [](std::ostream &o) { o << std::setw(25) << std::left << std::setfill('#') << std::showpos; }, [](std::ostream &o) { o << std::setw(1) << std::left << std::setfill('*'); } };
    for (unsigned m = 0; m < sizeof M / sizeof M[0]; m++) {
      std::ostringstream a, b; M[m](a); M[m](b); a << z; b << v;
      CHECK("ostream_dec", a.str() == b.str());
      // hex/oct of an mpz are SIGNED by design (manual, "C++ Formatted Output"): showpos applies there, unlike long; and showbase on zero gives 0x0.
      // Compare with the long only where both conventions coincide.
      bool uses_showpos = (m == 1 || m == 5 || m == 7 || m == 10);
      if (v > 0 && !uses_showpos) {
        std::ostringstream ah, bh; M[m](ah); M[m](bh); ah << std::hex << std::showbase << z; bh << std::hex << std::showbase << v; CHECK("ostream_hex_showbase", ah.str() == bh.str());
        std::ostringstream ao, bo; M[m](ao); M[m](bo); ao << std::oct << z; bo << std::oct << v; CHECK("ostream_oct", ao.str() == bo.str());
        std::ostringstream au, bu; M[m](au); M[m](bu); au << std::hex << std::uppercase << z; bu << std::hex << std::uppercase << v; CHECK("ostream_hex_upper", au.str() == bu.str());
      }
    }
    // extraction
    { std::ostringstream os; os << v << " " << v; std::istringstream is(os.str()); mpz_class x, y; is >> x >> y; CHECK("istream_dec", x == z && y == z && !is.fail()); }
    if (v >= 0) { std::ostringstream os; os << std::hex << v; std::istringstream is(os.str()); mpz_class x; is >> std::hex >> x; CHECK("istream_hex", x == z); }
    if (v >= 0) { std::ostringstream os; os << std::showbase << std::hex << v << " " << std::oct << v << " " << std::dec << v; std::istringstream is(os.str()); is.unsetf(std::ios::basefield);
                  mpz_class x, y, w; is >> x >> y >> w; CHECK("istream_base0", x == z && y == z && w == z); }
    { std::istringstream is("zz"); mpz_class x(5); is >> x; CHECK("istream_fail", is.fail()); }
    // rationals and floats
    mpq_class q(v, 7); q.canonicalize();
    mpq_t cq; mpq_init(cq); mpq_set_si(cq, v, 7); mpq_canonicalize(cq);
    CHECK("q_ctor", mpq_equal(q.get_mpq_t(), cq));
    CHECK("q_get_d", q.get_d() == mpq_get_d(cq));
    { char *s = mpq_get_str(0, 10, cq); CHECK("q_get_str", q.get_str() == std::string(s)); mpq_class y(s); CHECK("q_ctor_str", y == q);
      std::ostringstream os; os << q; CHECK("q_ostream", os.str() == std::string(s)); std::istringstream is(s); mpq_class x; is >> x; CHECK("q_istream", x == q); free(s); }
    CHECK("q_num", q.get_num() == mpz_class(mpq_numref(cq)) && q.get_den() == mpz_class(mpq_denref(cq)));
    mpf_class f(v); mpf_t cf; mpf_init2(cf, f.get_prec()); mpf_set_si(cf, v);
    CHECK("f_ctor", mpf_cmp(f.get_mpf_t(), cf) == 0);
    CHECK("f_get_d", f.get_d() == mpf_get_d(cf));
    CHECK("f_get_si", f.get_si() == mpf_get_si(cf));
    CHECK("f_fits", f.fits_slong_p() == (mpf_fits_slong_p(cf) != 0) && f.fits_sint_p() == (mpf_fits_sint_p(cf) != 0) && f.fits_ushort_p() == (mpf_fits_ushort_p(cf) != 0));
    { mp_exp_t e1, e2; char *s = mpf_get_str(0, &e2, 10, 0, cf); CHECK("f_get_str", f.get_str(e1, 10, 0) == std::string(s) && e1 == e2); free(s); }
    // mpf_class arithmetic on exactly representable values: same as the C calls at the same precision
    static const double DV[] = {1.5, -0.25, 1024.0, 3.0, 0.0, -7.75, 65536.0};
    for (double d : DV) for (double d2 : DV) {
      mpf_class x(d), y(d2), r; mpf_t cx, cy, cr; mpf_init2(cx, x.get_prec()); mpf_init2(cy, y.get_prec()); mpf_init2(cr, r.get_prec()); mpf_set_d(cx, d); mpf_set_d(cy, d2);
      r = x + y; mpf_add(cr, cx, cy); CHECK("f_add", mpf_cmp(r.get_mpf_t(), cr) == 0);
      r = x - y; mpf_sub(cr, cx, cy); CHECK("f_sub", mpf_cmp(r.get_mpf_t(), cr) == 0);
      r = x * y; mpf_mul(cr, cx, cy); CHECK("f_mul", mpf_cmp(r.get_mpf_t(), cr) == 0);
      r = x * y + x; mpf_mul(cr, cx, cy); mpf_add(cr, cr, cx); CHECK("f_muladd", mpf_cmp(r.get_mpf_t(), cr) == 0);
      r = x - y * 2; mpf_mul_ui(cr, cy, 2); mpf_sub(cr, cx, cr); CHECK("f_submul2", mpf_cmp(r.get_mpf_t(), cr) == 0);
      x = x + y * x; mpf_mul(cr, cy, cx); mpf_add(cr, cx, cr); CHECK("f_alias", mpf_cmp(x.get_mpf_t(), cr) == 0); x = d;
      r = x / 4; mpf_div_ui(cr, cx, 4); CHECK("f_div4", mpf_cmp(r.get_mpf_t(), cr) == 0);
      r = x << 3; mpf_mul_2exp(cr, cx, 3); CHECK("f_shl", mpf_cmp(r.get_mpf_t(), cr) == 0);
      r = x >> 5; mpf_div_2exp(cr, cx, 5); CHECK("f_shr", mpf_cmp(r.get_mpf_t(), cr) == 0);
      r = -x; mpf_neg(cr, cx); CHECK("f_neg", mpf_cmp(r.get_mpf_t(), cr) == 0);
      r = abs(x); mpf_abs(cr, cx); CHECK("f_abs", mpf_cmp(r.get_mpf_t(), cr) == 0);
      r = floor(x); mpf_floor(cr, cx); CHECK("f_floor", mpf_cmp(r.get_mpf_t(), cr) == 0);
      r = ceil(x); mpf_ceil(cr, cx); CHECK("f_ceil", mpf_cmp(r.get_mpf_t(), cr) == 0);
      r = trunc(x); mpf_trunc(cr, cx); CHECK("f_trunc", mpf_cmp(r.get_mpf_t(), cr) == 0);
      if (d >= 0) { r = sqrt(x * x); mpf_mul(cr, cx, cx); mpf_sqrt(cr, cr); CHECK("f_sqrt", mpf_cmp(r.get_mpf_t(), cr) == 0); }
      CHECK("f_cmp", (x < y) == (mpf_cmp(cx, cy) < 0) && (x == y) == (mpf_cmp(cx, cy) == 0) && (x >= y) == (mpf_cmp(cx, cy) >= 0) && cmp(x, y) == ((mpf_cmp(cx, cy) > 0) - (mpf_cmp(cx, cy) < 0)));
      CHECK("f_cmp_d", (x < d2) == (d < d2) && (x == d2) == (d == d2) && (d2 > x) == (d2 > d));
      x += y; mpf_add(cr, cx, cy); CHECK("f_pluseq", mpf_cmp(x.get_mpf_t(), cr) == 0); x = d;
      x *= y; mpf_mul(cr, cx, cy); CHECK("f_muleq", mpf_cmp(x.get_mpf_t(), cr) == 0); x = d;
      x -= 3; mpf_sub_ui(cr, cx, 3); CHECK("f_minuseq_ui", mpf_cmp(x.get_mpf_t(), cr) == 0); x = d;
      mpf_clear(cx); mpf_clear(cy); mpf_clear(cr);
    }
    mpz_clear(c); mpq_clear(cq); mpf_clear(cf);
  }
  // integer extraction against the C++ library's own extraction of a long from the same text, in every basefield setting: value, fail
  // state and the character the stream stops at (a digit that does not belong to the base ends the number)
  { static const char *IT[] = {"128", "0128", "08", "17", "-017", "12a", "+7", "  5", "0", "-0", "9", "0778", "-128 4", "1238/7", "77", "0x1fg", "0X1F", "ff", "10 ", "-9x"};
    typedef std::ios_base::fmtflags ff;
    ff bases[] = {std::ios::dec, std::ios::oct, std::ios::hex, ff(0)};
    for (const char *t : IT) for (ff bf : bases) {
      // (a "0x" prefix under ios::hex: the standard library accepts it the way strtol does, the classes read plain hex digits the way
      // mpz_set_str (.., 16) does - outside the comparison; with a cleared basefield both take the prefix)
      if (bf == std::ios::hex && t[0] == '0' && (t[1] == 'x' || t[1] == 'X')) continue;
      std::istringstream a(std::string(t) + "~"), b(std::string(t) + "~");
      a.setf(bf, std::ios::basefield); b.setf(bf, std::ios::basefield);
      mpz_class z(777); long l = 777; a >> z; b >> l;
      bool fa = a.fail(), fb = b.fail();
      CHECK("istream_mpz_vs_long_failbit", fa == fb);
      if (!fa && !fb) { CHECK("istream_mpz_vs_long_value", z == l); a.clear(); b.clear(); CHECK("istream_mpz_vs_long_stop_position", a.peek() == b.peek()); }
    }
  }
  // basefield combinations: the standard library treats anything but exactly oct or exactly hex as decimal; the classes must do the same
  { typedef std::ios_base::fmtflags ff; const ff D = std::ios::dec, O = std::ios::oct, H = std::ios::hex;
    ff combos[] = { D | O, O | H, D | H, D | O | H, ff(0) };
    static const long WV[] = {0, 1, 8, 4711, 65535, 1234567890L, -4711};
    for (long v : WV) for (ff c : combos) for (int sb = 0; sb < 2; sb++) {
      mpz_class z(v); mpq_class q(v, 9); q.canonicalize(); mpf_class f(v); f /= 4;
      std::ostringstream a, b, aq, bq, af, bf, al;
      a.setf(c, std::ios::basefield); aq.setf(c, std::ios::basefield); af.setf(c, std::ios::basefield); al.setf(c, std::ios::basefield);
      if (sb) { a << std::showbase; b << std::showbase; aq << std::showbase; bq << std::showbase; af << std::showbase; bf << std::showbase; al << std::showbase; }
      a << z; b << z; aq << q; bq << q; af << f; bf << f; al << v;
      CHECK("ostream_basefield_combo_z", a.str() == b.str());
      CHECK("ostream_basefield_combo_long", a.str() == al.str());
      CHECK("ostream_basefield_combo_q", aq.str() == bq.str());
      CHECK("ostream_basefield_combo_f", af.str() == bf.str());
    }
    for (long v : WV) if (v >= 0) { mpz_class z(v); std::ostringstream a; a << std::oct << z; char *s = mpz_get_str(0, 8, z.get_mpz_t()); CHECK("ostream_oct_vs_get_str", a.str() == std::string(s)); free(s);
      std::ostringstream h; h << std::hex << z; s = mpz_get_str(0, 16, z.get_mpz_t()); CHECK("ostream_hex_vs_get_str", h.str() == std::string(s)); free(s); }
  }
  // extraction of floats: every spelling mpf_set_str accepts must give the same value through operator>>, and stop at the same place
  { static const char *FT[] = {"1.5e3", "1.5E3", "1.5e+3", "1.5E+3", "-2.5e-2", "-2.5E-2", "1e2", "1E2", "125", "0.001953125", ".5", "5.", "-0.75E1", "7.25e0", "7.25E0", "1e0", "1E10"};
    for (const char *t : FT) {
      mpf_t cf; mpf_init2(cf, 256); int rc = mpf_set_str(cf, t, 10);
      std::istringstream is(std::string(t) + " 99"); mpf_class x(0, 256); int after = -1; is >> x; if (!is.fail()) { is >> after; }
      if (rc == 0) { CHECK("istream_mpf_value", !is.fail() && mpf_cmp(x.get_mpf_t(), cf) == 0); CHECK("istream_mpf_stops_after_number", after == 99); }
      mpf_clear(cf);
    }
    // what the library writes in any float format reads back to the same value
    static const double RV[] = {1.5, -0.25, 1024.0, 1536.0, 0.001953125, 123456789.0, -7.75e10};
    for (double d : RV) for (int up = 0; up < 2; up++) for (int sci = 0; sci < 3; sci++) {
      mpf_class f(d, 128); std::ostringstream os; if (up) os << std::uppercase; if (sci == 1) os << std::scientific; if (sci == 2) os << std::fixed; os << std::setprecision(30) << f;
      std::istringstream is(os.str()); mpf_class x(0, 128); is >> x; CHECK("ostream_istream_mpf_roundtrip", !is.fail() && x == f);
    }
    // integers and rationals: sign, leading white space, base prefixes with basefield 0, upper-case digits and prefix
    static const char *ZT[] = {"123", "-123", "  42", "0x1F", "0X1f", "017", "0", "-0x10", "0b101", "ABCDEF"};
    for (const char *t : ZT) for (int mode = 0; mode < 3; mode++) {
      int base = mode == 0 ? 10 : (mode == 1 ? 16 : 0);
      mpz_t cz; mpz_init(cz); const char *p = t; while (*p == ' ') p++; int rc = mpz_set_str(cz, p, base);
      std::istringstream is(std::string(t) + " 77"); if (mode == 1) is >> std::hex; if (mode == 2) is.unsetf(std::ios::basefield);
      mpz_class x(5); is >> x;
      // the stream accepts the longest valid prefix where mpz_set_str rejects the whole string: compare only when the C function accepts it and the text has no prefix it ignores in this base
      bool prefixed = (t[0] == '0' && (t[1] == 'x' || t[1] == 'X' || t[1] == 'b')) || (t[0] == '-' && t[1] == '0' && t[2] == 'x');
      if (rc == 0 && !(prefixed && base != 0) && !(base == 0 && t[0] == '0' && t[1] == 'b')) CHECK("istream_mpz_vs_set_str", !is.fail() && mpz_cmp(x.get_mpz_t(), cz) == 0);
      mpz_clear(cz);
    }
    static const char *QT[] = {"3/4", "-3/4", "6/8", "17", "0x10/0x3", "-5/1"};
    for (const char *t : QT) { int base = (t[0] == '0' || (t[0] == '-' && t[1] == '0')) ? 0 : 10; mpq_t cq; mpq_init(cq); int rc = mpq_set_str(cq, t, base);
      std::istringstream is(std::string(t) + " 77"); if (base == 0) is.unsetf(std::ios::basefield); mpq_class x; is >> x;
      if (rc == 0) CHECK("istream_mpq_vs_set_str", !is.fail() && mpq_equal(x.get_mpq_t(), cq)); mpq_clear(cq); }
  }
  // extraction into targets that already hold large values: every field of the target must be rewritten
  { mpz_class bigd; mpz_ui_pow_ui(bigd.get_mpz_t(), 2, 65); bigd += 3;
    static const char *QT2[] = {"7", "-7", "3/4", "0", "12/1", "0x10"};
    for (const char *t : QT2) for (int pre = 0; pre < 3; pre++) {
      int base = (t[0] == '0' && t[1] == 'x') ? 0 : 10;
      mpq_t cq; mpq_init(cq); mpq_set_str(cq, t, base);
      mpq_class x; if (pre == 1) { x.get_num() = 5; x.get_den() = bigd; } if (pre == 2) { x.get_num() = -bigd * bigd; x.get_den() = bigd * bigd + 2; }
      std::istringstream is(t); if (base == 0) is.unsetf(std::ios::basefield); is >> x;
      CHECK("istream_mpq_into_used_target", !is.fail() && mpq_equal(x.get_mpq_t(), cq) && mpz_cmp(x.get_den_mpz_t(), mpq_denref(cq)) == 0 && mpz_cmp(x.get_num_mpz_t(), mpq_numref(cq)) == 0);
      mpq_class y = x + 1; mpq_t cy; mpq_init(cy); mpq_set_ui(cy, 1, 1); mpq_add(cy, cq, cy); CHECK("mpq_after_extraction_usable", mpq_equal(y.get_mpq_t(), cy));
      mpq_clear(cq); mpq_clear(cy);
      mpz_class z = pre ? -bigd * bigd * bigd : mpz_class(0); std::istringstream iz("12345 "); iz >> z; CHECK("istream_mpz_into_used_target", z == 12345);
      mpf_class f(0, 256); if (pre) f = mpf_class(bigd) * mpf_class(bigd); std::istringstream if_("2.5 "); if_ >> f; CHECK("istream_mpf_into_used_target", f == 2.5);
    }
  }
  // fixed-point output of floats in bases 16 (both cases), 8 and 10 with the precision cutting digits off: against exact integer rounding
  { struct { unsigned long m; int k; } HV[] = {{0xABCD, 2}, {0x1F8, 2}, {0x1AF9, 3}, {0xFFFF, 2}, {0x9999, 3}, {0xA5A5A5, 4}, {0xBEEF, 1}, {0xFEDCBA, 5}, {0x10F, 2}, {0xEF, 2}, {0xFFF, 3}};
    for (auto hv : HV) for (int p = 0; p < hv.k; p++) for (int mode = 0; mode < 4; mode++) {
      int B = mode < 2 ? 16 : (mode == 2 ? 8 : 10);
      // value = m / B^k exactly
      mpz_class Bk; mpz_ui_pow_ui(Bk.get_mpz_t(), B, hv.k); mpz_class Bp; mpz_ui_pow_ui(Bp.get_mpz_t(), B, p);
      mpf_class f(0, 256); f = mpf_class(mpz_class(hv.m), 256) / mpf_class(Bk, 256);
      mpz_class num = mpz_class(hv.m) * Bp * 2 + Bk, den = Bk * 2, n = num / den;
      if (num % den == 0) continue;                                       // an exact tie: rounding direction is not asserted
      std::string ds = n.get_str(mode == 1 ? -16 : B); while ((int) ds.size() < p + 1) ds = "0" + ds;
      std::string expct = p ? ds.substr(0, ds.size() - p) + "." + ds.substr(ds.size() - p) : ds;
      std::ostringstream os; os << std::fixed << std::setprecision(p);
      if (mode == 0) os << std::hex; if (mode == 1) os << std::hex << std::uppercase; if (mode == 2) os << std::oct;
      os << f;
      CHECK(mode == 0 ? "ostream_mpf_fixed_hex" : mode == 1 ? "ostream_mpf_fixed_HEX" : mode == 2 ? "ostream_mpf_fixed_oct" : "ostream_mpf_fixed_dec", os.str() == expct);
    }
  }
  // float insertion against the C++ library's own formatting of the equal double, for every (value, notation, precision) whose decimal
  // expansion is exact at that precision (table generated by the harness), x showpoint / showpos / uppercase x width / fill / adjustment
  { struct { double v; int mode; int prec; } FT2[] = { /*FLOAT_TABLE*/ {1.5, 0, 6} };
    for (auto ft : FT2) for (int fl = 0; fl < 8; fl++) for (int wd = 0; wd < 3; wd++) {
      std::ostringstream a, b; mpf_class f(ft.v, 256);
      std::ostream *os[2] = {&a, &b};
      for (auto o : os) { if (ft.mode == 1) *o << std::fixed; if (ft.mode == 2) *o << std::scientific; *o << std::setprecision(ft.prec);
        if (fl & 1) *o << std::showpoint; if (fl & 2) *o << std::showpos; if (fl & 4) *o << std::uppercase;
        if (wd == 1) *o << std::setw(14); if (wd == 2) *o << std::setw(14) << std::left << std::setfill('*'); }
      a << f; b << ft.v;
      CHECK(ft.mode == 0 ? (fl & 1 ? "ostream_mpf_general_showpoint_vs_double" : "ostream_mpf_general_vs_double") : ft.mode == 1 ? "ostream_mpf_fixed_vs_double" : "ostream_mpf_scientific_vs_double", a.str() == b.str());
    }
  }
  // conversions between the classes and swap
  { mpz_class z("123456789012345678901234567890"); mpq_class q(z); mpf_class f(z, 256); CHECK("conv", q.get_num() == z && q.get_den() == 1 && mpz_class(f) == z);
    mpz_class a(5), b(-7); swap(a, b); CHECK("swap", a == -7 && b == 5); mpq_class x(1, 2), y(3); swap(x, y); CHECK("qswap", x == 3 && y == mpq_class(1, 2)); }
  printf("DONE %ld %ld\n", mism, n);
  return 0;
}
'''


def _float_table():
    """(value, notation 0 general / 1 fixed / 2 scientific, precision) triples whose output shows the value exactly: no rounding rule involved"""
    from fractions import Fraction
    import math
    vals = [0.5, 0.25, -0.25, 1.5, 1024.0, 0.125, 3.0, 65536.0, 0.0625, -7.75, 123456.0, 0.0025 * 0 + 0.00390625, 1e10, -0.5, 100.0, 0.75, 2.5e-1, 12.5, 99.5, 1e5, 1e6, 1234567.0, 0.0]
    out = []
    for v in vals:
        fr = Fraction(v)
        for prec in (0, 1, 2, 3, 6, 10, 17):
            # fixed: exact when v * 10^prec is an integer
            if (fr * 10 ** prec).denominator == 1:
                out.append((v, 1, prec))
            if fr != 0:
                ex = math.floor(math.log10(abs(fr)))
                if Fraction(10) ** ex > abs(fr):
                    ex -= 1
                if Fraction(10) ** (ex + 1) <= abs(fr):
                    ex += 1
                mant = abs(fr) / Fraction(10) ** ex
                # (precision 0 outside fixed notation is taken as 6 by the classes - a documented choice in cxx/osfuns.cc - so it is
                # compared only in fixed notation)
                if prec and (mant * 10 ** prec).denominator == 1:
                    out.append((v, 2, prec))
                if prec and (mant * 10 ** (max(prec, 1) - 1)).denominator == 1:
                    out.append((v, 0, prec))
            elif prec:
                out.append((v, 2, prec))
                out.append((v, 0, prec))
    return " ".join("{%r, %d, %d}," % t for t in out)


def compile_run(src_path, exe, inc, libs, timeout=900):
    r = subprocess.run(["g++", "-O0", "-std=c++11", "-w", "-I", inc, "-o", exe, src_path] + libs, capture_output=True, text=True)
    if r.returncode != 0:
        return None, "compile failed:\n" + r.stderr[-3000:]
    try:
        r = subprocess.run([exe], capture_output=True, text=True, timeout=timeout)
    except subprocess.TimeoutExpired:
        return None, "run timed out"
    if r.returncode != 0:
        return r.stdout, "program exited with %d: %s" % (r.returncode, r.stderr[-500:])
    return r.stdout, None


def fhex(v):
    return ("-" if v < 0 else "") + "%x" % abs(v)


def main(tier, seed, replay):
    t0 = time.time()
    meta = build.get("cxx")
    inc = meta["include"]
    libs = [os.path.join(meta["dir"], "libmpirxx.a"), os.path.join(meta["dir"], "libmpir.a")]
    work = tempfile.mkdtemp(prefix="verif-C20-")
    viol = []
    try:
        if replay:
            rp = json.load(open(replay))
            src = os.path.join(work, "replay.cc")
            open(src, "w").write(rp["program"])
            outs = []
            for i in range(2):
                out, err = compile_run(src, os.path.join(work, "replay%d" % i), inc, libs)
                outs.append((out, err))
            print(outs[0][0][-2000:] if outs[0][0] else outs[0][1])
            if outs[0] != outs[1]:
                print("replay: NOT deterministic")
                return 2
            bad = outs[0][1] is not None or (outs[0][0] and ("\nM " in "\n" + outs[0][0] or "DONE 0" not in outs[0][0])) or rp.get("python_mismatch")
            if bad:
                print("VIOLATION property=C20 replay=%s" % replay)
                return 1
            print("replay: program passes")
            return 0
        zst = gen_z(tier)
        qst = gen_q(tier)
        # validity over all rounds + Python expected values
        units = []          # (kind, [(idx, src, expr, target, compound, expected per round)])
        idx = 0
        zok = []
        for kind, e, tgt, comp in zst:
            full = e if comp is None else g.Node(comp, [g.Leaf("var", tgt, None), e])
            vals = g.valid_all_rounds(full, g.ZROUNDS)
            if vals is None:
                continue
            zok.append((idx, g.z_statement(idx, e, tgt, comp), full, tgt, comp, vals))
            idx += 1
        for v in ("a", "b", "c"):
            for form in ("++x", "x++", "--x", "x--"):
                d = 1 if "++" in form else -1
                pre = form[0] in "+-"
                vals = [(rd["abc".index(v)] + (d if pre else 0)) for rd in g.ZROUNDS]
                vals2 = [rd["abc".index(v)] + d for rd in g.ZROUNDS]
                zok.append((idx, g.z_incdec(idx, v, form), None, v, form, vals))
                zok.append((idx + 1, None, None, v, form, vals2))
                idx += 2
        qok = []
        for kind, e, tgt, comp in qst:
            full = e if comp is None else g.Node(comp, [g.Leaf("var", tgt, None), e])
            vals = g.q_valid(full, g.QROUNDS)
            if vals is None:
                continue
            qok.append((idx, g.q_statement(idx, e, tgt, comp), full, tgt, comp, vals))
            idx += 1
        # mpz-valued accessors of an mpq_class inside expressions assigned to (possibly the same) mpq_class: partial aliasing
        QT = [
            ("{t} = {x}.get_den() * 3", lambda t, x, y: Fraction(x.denominator * 3)),
            ("{t} = {x}.get_num() + {y}.get_den()", lambda t, x, y: Fraction(x.numerator + y.denominator)),
            ("{t} = {y} * ({x}.get_den() + 1)", lambda t, x, y: y * (x.denominator + 1)),
            ("{t} = {y} / ({x}.get_den() + 2)", lambda t, x, y: y / (x.denominator + 2)),
            ("{t} = {x}.get_num() * {x}.get_den()", lambda t, x, y: Fraction(x.numerator * x.denominator)),
            ("{t} = {x}.get_den() - {y}.get_num()", lambda t, x, y: Fraction(x.denominator - y.numerator)),
            ("{t} = ({x}.get_den() * {y}.get_den()) + {y}", lambda t, x, y: x.denominator * y.denominator + y),
            ("{t} += {x}.get_den()", lambda t, x, y: t + x.denominator),
            ("{t} *= {x}.get_den() - 2", lambda t, x, y: t * (x.denominator - 2)),
            ("{t} -= {x}.get_num() * {y}.get_den()", lambda t, x, y: t - x.numerator * y.denominator),
            ("{t} = -{x}.get_den()", lambda t, x, y: Fraction(-x.denominator)),
            ("{t} = abs({x}.get_num()) + {x}", lambda t, x, y: abs(x.numerator) + x),
            ("{t} = {x}.get_den() << 3", lambda t, x, y: Fraction(x.denominator << 3)),
            ("{t} = mpq_class({x}.get_den(), {x}.get_den() + 1)", None),
        ]
        names = "abc"
        for tmpl, fn_ in QT:
            if fn_ is None:
                continue
            for ti in range(3):
                for xi in range(3):
                    for yi in range(3):
                        if "{y}" not in tmpl and yi:
                            continue
                        vals = []
                        ok = True
                        for rd in g.QROUNDS:
                            try:
                                vals.append(fn_(rd[ti], rd[xi], rd[yi]))
                            except ZeroDivisionError:
                                ok = False
                        if not ok:
                            continue
                        text = tmpl.format(t=names[ti], x=names[xi], y=names[yi])
                        src = "{ mpq_class sv(%s); %s; out_q(%d, rd, %s.get_mpq_t(), %s.get_mpq_t()); %s = sv; }" % (names[ti], text, idx, names[ti], names[ti], names[ti])
                        qok.append((idx, src, None, names[ti], text, vals))
                        idx += 1
        per_tu = 1500
        jobs = []
        for i in range(0, len(zok), per_tu):
            ch = zok[i:i + per_tu]
            jobs.append(("z", ch, g.z_program([(x[0], x[1]) for x in ch if x[1] is not None], g.ZROUNDS)))
        for i in range(0, len(qok), per_tu):
            ch = qok[i:i + per_tu]
            jobs.append(("q", ch, g.q_program([(x[0], x[1]) for x in ch], g.QROUNDS)))
        jobs.append(("misc", [], MISC_SRC.replace("/*FLOAT_TABLE*/", _float_table())))

        def run_job(j):
            k, (kind, ch, prog) = j
            src = os.path.join(work, "tu%d.cc" % k)
            open(src, "w").write(prog)
            out, err = compile_run(src, os.path.join(work, "tu%d" % k), inc, libs)
            try:
                os.unlink(os.path.join(work, "tu%d" % k))
            except OSError:
                pass
            return k, kind, ch, prog, out, err

        allexp = {x[0]: ("z", x) for x in zok}
        allexp.update({x[0]: ("q", x) for x in qok})
        seen = {}
        executed = 0
        distinct = 0
        samples = []
        misc_checks = 0
        with ThreadPoolExecutor(max_workers=16) as ex:
            for k, kind, ch, prog, out, err in ex.map(run_job, list(enumerate(jobs))):
                if err is not None and out is None:
                    viol.append({"space": "programs", "kind": "compile-or-run", "msg": "translation unit %d (%s): %s" % (k, kind, err[:1500]), "case": "tu%d" % k, "program": prog if len(prog) < 400000 else prog[:400000]})
                    continue
                if err is not None:
                    viol.append({"space": "programs", "kind": "crash", "msg": "translation unit %d (%s): %s" % (k, kind, err[:500]), "case": "tu%d" % k, "program": prog if len(prog) < 400000 else prog[:400000]})
                if kind == "misc":
                    for line in out.splitlines():
                        if line.startswith("M "):
                            viol.append({"space": "misc", "kind": line.split()[1], "msg": "conversion/stream check failed: " + line, "case": line, "program": prog})
                        if line.startswith("DONE"):
                            misc_checks = int(line.split()[2])
                    continue
                for line in out.splitlines():
                    f = line.split()
                    if not f or f[0] == "DONE":
                        continue
                    if len(f) < 4 or f[0] not in "ZIQM":
                        viol.append({"space": kind, "kind": "malformed-output", "msg": "unexpected output line %r" % line[:200], "case": "tu%d" % k, "program": ""})
                        continue
                    i_, rd = int(f[1]), int(f[2])
                    st = allexp[i_][1]
                    executed += 1
                    seen.setdefault(i_, 0)
                    seen[i_] += 1
                    ev = st[5][rd]
                    if f[0] == "M":
                        viol.append({"space": kind, "kind": "c++-vs-C-calls", "msg": "statement differs from the post-order C evaluation: round %d got %s, C calls give %s" % (rd, f[3], f[4]),
                                     "case": _descr(st), "program": _single(kind, st)})
                        continue
                    if f[0] == "Z":
                        ok = f[3] == fhex(ev)
                    elif f[0] == "I":
                        ok = int(f[3]) == int(ev)
                    else:
                        ok = f[3] == (fhex(ev.numerator) if ev.denominator == 1 else fhex(ev.numerator) + "/" + "%x" % ev.denominator)
                    if not ok:
                        viol.append({"space": kind, "kind": "c++-vs-python", "msg": "round %d: program gives %s, the Python value of the tree is %s" % (rd, f[3], ev), "case": _descr(st),
                                     "program": _single(kind, st), "python_mismatch": True})
                if len(samples) < 8 and ch:
                    samples.append({"kind": kind, "statement": _descr(ch[len(ch) // 2]), "source": (ch[len(ch) // 2][1] or "")[:400]})
        for i_, (kind, st) in allexp.items():
            nr = len(g.ZROUNDS if kind == "z" else g.QROUNDS)
            if seen.get(i_, 0) != nr and not any(v["kind"] in ("compile-or-run", "crash") for v in viol):
                viol.append({"space": kind, "kind": "missing-output", "msg": "statement produced %d of %d result lines" % (seen.get(i_, 0), nr), "case": _descr(st), "program": _single(kind, st)})
        distinct = len(seen)
        # report
        results = [{"variant": "cxx", "n": executed + misc_checks, "distinct": distinct + (1 if misc_checks else 0), "nfail": len(viol), "fails": viol[:50], "samples": samples, "blocks": len(jobs),
                    "total_blocks": len(jobs), "per_space": {"mpz_class": [len(zok) * len(g.ZROUNDS), len(zok)], "mpq_class": [len(qok) * len(g.QROUNDS), len(qok)], "misc_checks": [misc_checks, 1]},
                    "extra": {"programs": len(zok) + len(qok), "translation_units": len(jobs)}, "errors": [], "exhaustive": not any(v["kind"] == "compile-or-run" for v in viol),
                    "wall_s": round(time.time() - t0, 1), "spaces": [{"name": "mpz_class", "blocks": len(zok), "doc": "statements"}, {"name": "mpq_class", "blocks": len(qok), "doc": "statements"},
                                                                     {"name": "misc", "blocks": 1, "doc": "constructors, get_str, get_si/ui/d, fits, stream <</>> with manipulators vs libstdc++ on the equal long, mpf_class on exact values"}]}]
        import mc.props.C20 as me
        return report.finish(me, ID, tier, seed, results, time.time() - t0, extra_cov={"programs": len(zok) + len(qok), "disagreements_checked": executed})
    finally:
        shutil.rmtree(work, ignore_errors=True)


def _descr(st):
    idx, src, full, tgt, comp, vals = st
    if full is None:
        return "%s (target %s)" % (comp, tgt)
    return "%s %s= %s" % (tgt, comp or "", g.cxx(full if comp is None else full.args[1]))


def _single(kind, st):
    """a stand-alone program with only this statement (the replay artefact)"""
    idx, src, full, tgt, comp, vals = st
    if src is None:
        return ""
    if kind == "z":
        return g.z_program([(idx, src)], g.ZROUNDS)
    return g.q_program([(idx, src)], g.QROUNDS)
