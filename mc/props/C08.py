"""C08  Powers and modular powers are exact."""
import math, os
from ctypes import c_void_p, c_long, c_ulong, c_int, c_uint64
from .. import lib, alphabet as al, rt, optable as ot
from ..explore import Space

ID = "C08"
LEVEL = "exploration"
RULE = ("bounded-exhaustive enumeration: mpz_powm/powm_ui over base x exponent x modulus from small exhaustive sets (all alias patterns), "
        "and modulus sizes 1..N limbs x modulus family (odd dense, all-ones, B^n/2+1, even with 2-adic valuation 1/63/64/65/128, 2^k, "
        "negative) x exponent family (every bit length on both sides of each sliding-window edge 7,25,81,241,673,1793,(4609); all-ones, "
        "single-bit, 0101, long zero runs; small negative exponents with invertible base) x base family (0, +-1, 2, m-1, m, m+1, dense, "
        "larger than m, negative); sizes around REDC_1_TO_REDC_N and POWM thresholds; same under the run-time-threshold floor vector. "
        "mpz_pow_ui/ui_pow_ui: base alphabet x e=0..200. Oracle: Python pow. distinct_nontrivial = distinct (function, configuration, "
        "modulus size/family, exponent class, base class) tuples.")
RULE = RULE + (" " + 'Later additions: moduli of 99..385 limbs on both sides of 64k+1 above 256 (REDC-n wrap-around sizes) with the structured families B^n-B+-1, B^n-B^2+1.')
ASSUMPTIONS = ["Python pow(b,e,m) and ** are the reference model", "zero modulus and non-invertible bases with negative exponent are outside the assertable domain (documented trap)"]
BUDGET = {"quick": 420, "thorough": 3300}
M, H = al.M, al.H


def passes(tier):
    return ["pin", "rt"] if tier == "quick" else ["pin", "rt", "asan"]


def load(variant):
    if variant == "rt":
        rt.load()
    else:
        lib.load(variant)


def dense(n, salt=0):
    return al.PAT(n, salt)["dense"]


def moduli(n):
    top = 64 * n
    out = [("odd_dense", dense(n) | 1), ("ones", al.ones(n)), ("Bn/2+1", (1 << (top - 1)) + 1), ("top1_odd", (1 << (top - 64)) | al.ones(n - 1) if n > 1 else 3),
           ("even_v1", (dense(n, 1) | 1) << 1 & al.ones(n) | (1 << (top - 1))), ("pow2", 1 << (top - 1)), ("neg_odd", -(dense(n, 2) | 1))]
    for v in (63, 64, 65, 128):
        if v < top - 1:
            out.append(("even_v%d" % v, (((dense(n, v) | 1) << v) & al.ones(n)) | (1 << (top - 1))))
    out.append(("3*2^k", 3 << (top - 2)))
    if n >= 3:
        B_ = 1 << 64
        out += [("B^n-B-1", (1 << top) - B_ - 1), ("B^n-B+1", (1 << top) - B_ + 1), ("B^n-B^2+1", (1 << top) - B_ * B_ + 1), ("B^(n-1)+B+1", (1 << (top - 64)) + B_ + 1)]
    return out


EDGES = (7, 25, 81, 241, 673, 1793, 4609)


def exponents(tier, n):
    """(label, e)"""
    out = [("0", 0), ("1", 1), ("2", 2), ("3", 3), ("64bit", M), ("2^64", 1 << 64), ("2^64+1", (1 << 64) + 1)]
    top = 4 if tier == "quick" else (6 if n <= 16 else 5)
    if n > 24:
        top = min(top, 3)
    for ed in EDGES[:top + 1]:
        for bl in (ed - 1, ed, ed + 1):
            out.append(("ones%d" % bl, (1 << bl) - 1))
            out.append(("bit%d" % bl, 1 << (bl - 1)))
        out.append(("0101_%d" % ed, int("5" * ((ed + 3) // 4), 16) & ((1 << ed) - 1) | (1 << (ed - 1))))
        out.append(("zrun_%d" % ed, (1 << (ed - 1)) | 1))
        out.append(("zrun2_%d" % ed, (1 << (ed - 1)) | (0b1011 << (ed // 2))))
    return out


def bases(m, n):
    a = abs(m)
    return [("0", 0), ("1", 1), ("-1", -1), ("2", 2), ("m-1", a - 1), ("m", a), ("m+1", a + 1), ("dense", dense(n, 9) % a), ("big", dense(2 * n + 1, 8)),
            ("neg", -dense(n, 7)), ("-2", -2), ("halfm", a >> 1)]


def spaces(tier, variant, seed):
    quick = tier == "quick"
    sp = []
    CFG = {}
    if variant == "rt":
        CFG["floor"] = rt.floor_vector()
        ships = rt.ship_vectors()
        ks = sorted(ships, key=lambda k: ships[k]["redc_1_to_redc_n_threshold"])
        for k in {ks[0], ks[-1]}:
            CFG["ship:" + k] = ships[k]
    else:
        CFG["pin"] = None
    BASECFG = "floor" if variant == "rt" else "pin"
    cur = {"cfg": None}

    def set_cfg(cfg):
        if cfg != cur["cfg"]:
            if variant == "rt":
                rt.set_vector(CFG[cfg])
            cur["cfg"] = cfg

    powm = ot.OPS["mpz_powm"]
    powm_ui = ot.OPS["mpz_powm_ui"]
    BS = al.zvals(2, al.L5)
    MS = [m for m in al.zvals(2, al.L9) if m != 0]
    ES = list(range(0, 21)) + [31, 32, 33, 63, 64, 65, 127, 128, 129, M, M + 1, (1 << 128) - 1, 1 << 127, -1, -2, -3, -65, -(1 << 64)]
    NAL = len(powm.alias_patterns())

    def sm_cases(blk):
        i = blk
        b = BS[i]
        for e in ES:
            for mi, m in enumerate(MS):
                yield (b, e, m, (mi + e) % NAL)
        for m in MS[:12]:
            for e in (0, 1, 2, 5, -1):
                for ai in range(NAL):
                    yield (b, e, m, ai)

    def sm_one(case, R):
        b, e, m, ai = case
        set_cfg(BASECFG)
        r = ot.run(powm, (b, e, m), alias=powm.alias_patterns()[ai], R=R)
        if r is None:
            return None
        if 0 <= e <= M:
            ot.run(powm_ui, (b, e, m), alias=powm_ui.alias_patterns()[ai % len(powm_ui.alias_patterns())], R=R)
        return ("small", ai, al.sgn(b), al.nl(abs(b)), al.sgn(e), min(abs(e).bit_length(), 70), al.sgn(m), al.nl(abs(m)), m % 2, r[1][0] == 0)

    sp.append(Space("powm_small", list(range(len(BS))), sm_cases, sm_one,
                    "mpz_powm/powm_ui: base in {0,+-EXH(L5)<=2 limbs} x %d exponents (incl. negative) x moduli in {+-EXH(L9)<=2 limbs}, alias patterns rotating (all patterns on a subset)" % len(ES)))

    def sz_cases(blk):
        cfg, n = blk
        for mi, (ml, m) in enumerate(moduli(n)):
            exps = exponents(tier, n)
            for ei, (el, e) in enumerate(exps):
                for bi, (bl, b) in enumerate(bases(m, n)):
                    if ei > 7 and bi not in (3, 4, 6, 7, 8, 9) and not (n <= 4):
                        continue
                    yield (cfg, n, mi, ei, bi)
            # negative exponents
            for e in (-1, -2, -(1 << 70) - 1):
                for bi in (3, 4, 7, 9):
                    yield (cfg, n, mi, -e, -bi - 1)

    def sz_one(case, R):
        cfg, n, mi, ei, bi = case
        set_cfg(cfg)
        ml, m = moduli(n)[mi]
        if bi < 0:
            e = -ei
            bl, b = bases(m, n)[-bi - 1]
            el = "neg"
        else:
            el, e = exponents(tier, n)[ei]
            bl, b = bases(m, n)[bi]
        r = ot.run(powm, (b, e, m), R=R, tag="mpz_powm[%s,%s,%s]" % (ml, el, bl))
        if r is None:
            return None
        if 0 <= e <= M:
            ot.run(powm_ui, (b, e, m), R=R, tag="mpz_powm_ui[%s,%s,%s]" % (ml, el, bl))
        return (cfg, n, ml, el, bl)

    if variant != "rt":
        N = 24 if quick else 60
        if variant == "asan":
            N = 16
        ns = list(range(1, N + 1))
        th = rt.parse_mparam(os.path.join(lib.META["dir"], "gmp-mparam.h"))
        for t in (th.get("redc_1_to_redc_n_threshold", 100), th.get("powm_threshold", 146), th.get("mul_karatsuba_threshold", 17), th.get("sqr_karatsuba_threshold", 24)):
            for d in (-1, 0, 1):
                if t + d > N and variant != "asan" and t <= (160 if quick else 400):
                    ns.append(t + d)
        sp.append(Space("powm_sizes", [("pin", n) for n in sorted(set(ns))], sz_cases, sz_one,
                        "modulus sizes %s limbs x modulus family x exponent family (window edges) x base family" % sorted(set(ns))))
    else:
        N1 = 28 if quick else 50
        blocks = [("floor", n) for n in range(1, N1 + 1)]
        for cfg, v in CFG.items():
            if cfg != "floor":
                t = v["redc_1_to_redc_n_threshold"]
                blocks += [(cfg, n) for n in (t - 1, t, t + 1) if n < 140]
        sp.append(Space("rt_powm_sizes", blocks, sz_cases, sz_one, "same under the floor vector (REDC_1_TO_REDC_N 16, KARATSUBA 4 ...) n=1..%d and shipped extremes" % N1))

    # larger odd parts: the wrap-around product size chosen for REDC-n (mpn_mulmod_bnm1_next_size) steps at multiples of 64 limbs above
    # 256, and the structured moduli B^n - B +- 1 make single limbs of the reduction zero / all ones
    def lg_cases(blk):
        cfg, n = blk
        for mi in range(len(moduli(n))):
            for ei in range(6):
                for bi in range(8):
                    yield (cfg, n, mi, ei, bi)

    def lg_one(case, R):
        cfg, n, mi, ei, bi = case
        set_cfg(cfg)
        ml, m = moduli(n)[mi]
        a = abs(m)
        e = [2, 3, 17, 65537, (1 << 200) - 1, (1 << 127) + 1][ei]
        b = [2, 1 << 32, 1 << 64, 3, a - 1, dense(n, 9) % a, -dense(n, 7), (1 << (64 * n - 1)) % a][bi]
        r = ot.run(powm, (b, e, m), R=R, tag="mpz_powm[%s,n=%d,e%d,b%d]" % (ml, n, ei, bi))
        if r is None:
            return None
        if e <= M:
            ot.run(powm_ui, (b, e, m), R=R, tag="mpz_powm_ui[%s,n=%d,e%d,b%d]" % (ml, n, ei, bi))
        return (cfg, n, ml, ei, bi)

    if variant != "asan":
        LN = (99, 100, 101, 128, 129, 255, 256, 257, 258, 320, 321, 385) if quick else (99, 100, 101, 127, 128, 129, 191, 192, 193, 255, 256, 257, 258, 319, 320, 321, 322, 385, 449, 513, 545, 577, 641, 1025)
        sp.append(Space("powm_large_structured", [(BASECFG, n) for n in LN], lg_cases, lg_one,
                        "mpz_powm/powm_ui with moduli of %s limbs (both sides of 64k+1 above 256, REDC-n regime) x 15 modulus families incl. B^n-B+-1, B^n-B^2+1 x 6 exponents x 8 bases (powers of two, m-1, dense, negative)" % (list(LN),)))

    pow_ui = ot.OPS["mpz_pow_ui"]
    ui_pow_ui = ot.OPS["mpz_ui_pow_ui"]
    PB = al.zvals(3, al.L5) + [s * v for v in (3, 5, 7, 10, 1 << 32, (1 << 32) - 1, H - 1, H + 1, dense(4), dense(7)) for s in (1, -1)]
    UB = [0, 1, 2, 3, 5, 7, 10, 1 << 16, 1 << 32, (1 << 32) - 1, (1 << 32) + 1, H - 1, H, H + 1, M - 1, M, 6, 12, 255, 256]

    def pw_cases(blk):
        kind, i = blk
        if kind == "z":
            b = PB[i]
            for e in list(range(0, 66 if quick else 201)) + [100, 127, 128, 129, 200]:
                yield ("mpz_pow_ui", b, e, 0)
                if e % 7 == 0:
                    yield ("mpz_pow_ui", b, e, 1)
        else:
            b = UB[i]
            for e in list(range(0, 131 if quick else 301)):
                yield ("mpz_ui_pow_ui", b, e, 0)
            if b in (0, 1, 2):
                for e in (1000, 4095, 4096, 65537):
                    yield ("mpz_ui_pow_ui", b, e, 0)

    def pw_one(case, R):
        name, b, e, ai = case
        set_cfg(BASECFG)
        op = ot.OPS[name]
        r = ot.run(op, (b, e), alias=op.alias_patterns()[ai], R=R)
        return (name, al.sgn(b), al.nl(abs(b)), e, ai)

    sp.append(Space("pow_ui", [("z", i) for i in range(len(PB))] + [("u", i) for i in range(len(UB))], pw_cases, pw_one,
                    "mpz_pow_ui (base {0,+-EXH(L5)<=3 limbs}+, in place too), mpz_ui_pow_ui: every exponent 0..N incl. 0^0 = 1"))
    return sp
