"""C09  Integer roots, remainders and perfect-power tests are exact."""
import math, os
from ctypes import c_void_p, c_long, c_ulong, c_int, c_uint64
from .. import lib, alphabet as al, mpnops as mo, rt, optable as ot
from ..explore import Space

ID = "C09"
LEVEL = "exploration"
RULE = ("bounded-exhaustive enumeration: u in {k^n-1, k^n, k^n+1} for k in {EXH(L9)<=2 limbs} U PAT(1..40 limbs) and n in {1..12, 63..65, 127..129, "
        "bitlen(u)+-1, 1000} (also -u for odd n); every u in EXH(L9)<=3 limbs and (B^j-1)^2+-{0,1}, j<=N, for the square-root family; all "
        "alias patterns; mpn_sqrtrem with and without remainder and mpn_perfect_square_p for every n<=N over RUN/PAT contents and squares+-1; "
        "under the pinned thresholds and the run-time-threshold floor vector (ROOTREM_THRESHOLD 1). Oracle: math.isqrt, integer Newton n-th "
        "root (self-tested), exhaustive prime-exponent search for perfect powers. distinct_nontrivial = distinct (function, n, size of u, "
        "k^n+d class, sign, exactness) tuples.")
RULE = RULE + (" " + 'Later additions: root indices up to 2^64-1; radicands exactly B^j; every trial-division prime as a power base; s^2 +- 2^j for every bit position with mpn_sqrtrem called with and without a remainder pointer.')
ASSUMPTIONS = ["math.isqrt and the integer Newton root (checked by r^n <= u < (r+1)^n in setup) are the reference model",
               "even roots of negative numbers and n = 0 are outside the assertable domain (documented trap)"]
BUDGET = {"quick": 420, "thorough": 3300}
M, H = al.M, al.H
G = mo.G


def passes(tier):
    return ["pin", "rt"] if tier == "quick" else ["pin", "rt", "asan"]


def load(variant):
    if variant == "rt":
        rt.load()
    else:
        lib.load(variant)


def spaces(tier, variant, seed):
    P = c_void_p
    quick = tier == "quick"
    sp = []
    BASECFG = "floor" if variant == "rt" else "pin"
    state = {"set": False}

    def set_cfg():
        if variant == "rt" and not state["set"]:
            rt.set_vector(rt.floor_vector())
            state["set"] = True

    K2 = [v for v in al.zvals(2, al.L9, signs=(1,)) if v > 1]
    KP = []
    for n in (3, 4, 5, 8, 13, 20, 40):
        for v in (al.ones(n), al.PAT(n)["dense"], 1 << (64 * n - 1), (1 << (64 * (n - 1))) + 1, al.ones(n) ^ al.ones(n // 2)):
            KP.append(v)
    KP += [1 << (64 * j) for j in range(1, 13)] + [(1 << (64 * j)) - 1 for j in (5, 6, 9)] + [3 << (64 * j) for j in (5, 7)]      # exact powers of B (remainder B^j - 1 when the root is 1)
    KS = K2 + KP
    NS = list(range(1, 13)) + [63, 64, 65, 127, 128, 129, 1000]
    MAXBITS = 64 * (120 if quick else 400)
    ROPS = ["mpz_root", "mpz_nthroot", "mpz_rootrem"]

    def rt_cases(blk):
        i, part = blk
        k = KS[i]
        for n in NS[part::4]:
            if k.bit_length() * n > MAXBITS:
                continue
            for d in (-1, 0, 1):
                yield (k, n, d, 1)
                if n % 2:
                    yield (k, n, d, -1)
        # n relative to the bit length of u = k
        L = k.bit_length()
        for n in (L - 1, L, L + 1, 2 * L, 64 * L + 1, (1 << 16) + 1, (1 << 31) - 1, (1 << 32) + 1, (1 << 36) + 1, (1 << 48) - 1, (1 << 63) + 1, (1 << 64) - 1, 1 << 63):
            if n >= 1 and part == 0:
                yield (k, -n, 0, 1)          # marker: u = k itself, root index n (up to the largest mpir_ui)
                if n % 2 and n > 2 * L:
                    yield (k, -n, 0, -1)

    def rt_one(case, R):
        k, n, d, s = case
        set_cfg()
        if n < 0:
            n = -n
            u = s * k
        else:
            u = s * (k ** n + d)
        sg = None
        for name in ROPS:
            op = ot.OPS[name]
            for ai, pat in enumerate(op.alias_patterns()):
                r = ot.run(op, (u, n), alias=pat, R=R)
            if r is not None:
                sg = r[2]
        if u >= 0 and n == 2:
            for name in ("mpz_sqrt", "mpz_sqrtrem"):
                op = ot.OPS[name]
                for pat in op.alias_patterns():
                    ot.run(op, (u,), alias=pat, R=R)
        ot.run(ot.OPS["mpz_perfect_square_p"], (u,), R=R)
        if abs(u).bit_length() <= 64 * (6 if quick else 16):
            ot.run(ot.OPS["mpz_perfect_power_p"], (u,), R=R)
        return (min(n, 200), d, s, al.nl(abs(u)), bool(sg))

    sp.append(Space("roots_kn", [(i, part) for i in range(len(KS)) for part in range(4)], rt_cases, rt_one,
                    "mpz_root/nthroot/rootrem (+sqrt, sqrtrem for n=2, perfect_square_p, perfect_power_p) on +-(k^n+d), d in -1,0,1; root index around bitlen(u)"))

    U3 = al.zvals(3, al.L9, signs=(1,))

    def sq_cases(blk):
        kind, i = blk
        if kind == "exh":
            for u in U3[i::16]:
                yield (u,)
                yield (-u,)
        else:
            j = i
            b = (1 << (64 * j)) - 1
            for base in (b, b - 1, (1 << (64 * j - 1)) + 1, al.PAT(j)["dense"], 1 << (64 * j - 1), al.rep(H, j) | 1):
                for d in (-2, -1, 0, 1, 2, base, 2 * base, 2 * base + 1):
                    yield (base * base + d,)

    def sq_one(case, R):
        (u,) = case
        set_cfg()
        for name in ("mpz_sqrt", "mpz_sqrtrem"):
            op = ot.OPS[name]
            for pat in op.alias_patterns():
                ot.run(op, (u,), alias=pat, R=R)
        r = ot.run(ot.OPS["mpz_perfect_square_p"], (u,), R=R)
        if abs(u).bit_length() <= 64 * (5 if quick else 12):
            ot.run(ot.OPS["mpz_perfect_power_p"], (u,), R=R)
        for n in (2, 3, 5):
            if u >= 0 or n % 2:
                ot.run(ot.OPS["mpz_rootrem"], (u, n), R=R)
                ot.run(ot.OPS["mpz_root"], (u, n), R=R)
        return (al.nl(abs(u)), al.sgn(u), bool(r[2]) if r else None, u % 64 if u > 0 else 0)

    # s^2 + 2^j and s^2 - 2^j for EVERY bit position j below the size of s^2: the remainder is a single bit anywhere, in particular
    # exactly a power of the limb base (carry limb of the remainder set, low limbs zero)
    SJ = [1, 3, (1 << 31) + 5, (1 << 32) - 1, H - 1, M, (1 << 64) + 1, (H << 64) | 1, al.ones(2), al.PAT(3)["dense"] | 1, al.ones(3), (1 << 191) + 1, al.PAT(5)["dense"], al.ones(6)]

    def sj_cases(blk):
        si = blk
        s_ = SJ[si]
        sq = s_ * s_
        for j in range(0, sq.bit_length()):
            yield (sq + (1 << j),)
            if sq - (1 << j) > 0:
                yield (sq - (1 << j),)

    f_nsqrtrem0 = lib.fn("mpn_sqrtrem", c_long, P, P, P, c_long)
    f_npsq = lib.fn("mpn_perfect_square_p", c_int, P, c_long)
    _sja = {}

    def sj_one(case, R):
        (u,) = case
        set_cfg()
        ot.run(ot.OPS["mpz_sqrtrem"], (u,), R=R)
        ot.run(ot.OPS["mpz_sqrt"], (u,), R=R)
        ot.run(ot.OPS["mpz_perfect_square_p"], (u,), R=R)
        # mpn level with and without a remainder pointer
        n = al.nl(u)
        A = _sja.get("a")
        if A is None:
            A = _sja["a"] = mo.Arena(256)
        G = mo.G
        sn = (n + 1) // 2
        tot = 4 * G + 2 * n + sn
        A.reset(tot)
        A.put(G, u, n)
        r_ = math.isqrt(u)
        rem = u - r_ * r_
        ret = f_nsqrtrem0(A.addr(2 * G + n), None, A.addr(G), n)
        if A.get(2 * G + n, sn) != r_ or (ret != 0) != (rem != 0):
            R.fail("mpn_sqrtrem", "u=%x without remainder pointer: root %s, returned %d for a remainder that is %s" % (u, "ok" if A.get(2 * G + n, sn) == r_ else "WRONG", ret, "zero" if rem == 0 else "non-zero"))
        ret = f_nsqrtrem0(A.addr(2 * G + n), A.addr(3 * G + n + sn), A.addr(G), n)
        if A.get(2 * G + n, sn) != r_ or ret != al.nl(rem) or (ret and A.get(3 * G + n + sn, ret) != rem):
            R.fail("mpn_sqrtrem", "u=%x with remainder pointer: root/remainder/size wrong (returned %d)" % (u, ret))
        if (f_npsq(A.addr(G), n) != 0) != (rem == 0):
            R.fail("mpn_perfect_square_p", "u=%x: answered %d" % (u, f_npsq(A.addr(G), n)))
        if A.get(G, n) != u:
            R.fail("mpn_sqrtrem", "input modified")
        return (n, rem.bit_length() % 64 == 1, rem == 0)

    sp.append(Space("sqrt_single_bit_remainders", list(range(len(SJ))), sj_cases, sj_one,
                    "s^2 +- 2^j for every bit position j, s from 14 shapes (1..6 limbs): mpz_sqrt/sqrtrem/perfect_square_p, mpn_sqrtrem with and without remainder pointer, mpn_perfect_square_p"))

    NJ = 40 if quick else 100
    if variant == "asan":
        NJ = 20
    sp.append(Space("sqrt_family", [("exh", i) for i in range(16)] + [("sq", j) for j in range(1, NJ + 1)], sq_cases, sq_one,
                    "every u in {0,+-EXH(L9)<=3 limbs}; base^2+d for base in {B^j-1, dense, ...}, j=1..%d, d in {-2..2, base, 2base, 2base+1}" % NJ))

    # perfect power on small numbers: every |u| < 2^16 plus neighbours of a^b
    def pp_cases(blk):
        lo = blk
        for u in range(lo, lo + 4096):
            yield (u,)
            yield (-u,)

    def pp_one(case, R):
        (u,) = case
        set_cfg()
        r = ot.run(ot.OPS["mpz_perfect_power_p"], (u,), R=R)
        ot.run(ot.OPS["mpz_perfect_square_p"], (u,), R=R)
        return (al.sgn(u), bool(r[2]), min(abs(u), 70))

    sp.append(Space("perfect_power_small", list(range(0, 1 << (19 if quick else 22), 4096)), pp_cases, pp_one, "mpz_perfect_power_p / perfect_square_p for every |u| below 2^19 (quick) / 2^22"))

    # every prime of the trial-division range (and just beyond it) as the base of a power, alone and with small cofactors
    def pq_cases(blk):
        lo = blk
        for p in range(lo, lo + 64):
            if p < 2 or any(p % q == 0 for q in range(2, int(p ** 0.5) + 1)):
                continue
            for e_ in (2, 3, 5, 7, 11):
                for c in (1, 2, 3, 4, 12, 1009, 1013):
                    for sgn_ in (1, -1):
                        yield (sgn_ * (c * p) ** e_,)
                        yield (sgn_ * c * p ** e_,)
                yield (p ** e_ + 1,)
                yield (-(p ** e_) * 2 ** e_,)

    sp.append(Space("perfect_power_prime_bases", list(range(0, 1216, 64)), pq_cases, pp_one,
                    "(c*p)^e, c*p^e, p^e+1 for EVERY prime p < 1216 (the trial-division table and just beyond), e in {2,3,5,7,11}, small cofactors c, both signs"))

    def pp2_cases(blk):
        a = blk
        for b in (2, 3, 4, 5, 6, 7, 9, 11, 13, 15, 16, 25, 27, 32, 49, 64, 81, 121):
            for s in (1, -1):
                if a.bit_length() * b > 64 * (10 if quick else 24):
                    continue
                for d in (-1, 0, 1):
                    yield (s * (a ** b) + d,)
                yield (s * (a ** b) * 2,)
                yield (s * (a ** b) * (a + 1),)

    sp.append(Space("perfect_power_constructed", [2, 3, 5, 6, 7, 10, 12, 255, 256, 257, 65535, 65537, (1 << 32) - 1, (1 << 32) + 1, M, M - 1, H + 1, (1 << 64) + 1, al.ones(2), al.ones(3), 1000003],
                    pp2_cases, pp_one, "+-a^b+d for many (a,b): multi-limb perfect powers and their neighbours"))

    # ---- mpn_sqrtrem / mpn_perfect_square_p ----
    f_sqrtrem = lib.fn("mpn_sqrtrem", c_long, P, P, P, c_long)
    f_psq = lib.fn("mpn_perfect_square_p", c_int, P, c_long)
    _A = {}

    def arena(n):
        if "a" not in _A or _A["a"].nl < n:
            _A["a"] = mo.Arena(max(n, 4096))
        return _A["a"]

    def ms_cases(blk):
        n = blk
        vals = al.RUN_list(al.L5, n, 2) if n > 3 else list(al.EXH(al.L5, n))
        vals += al.PATL(n)
        h = (n + 1) // 2
        for b in (al.ones(h), al.PAT(h)["dense"], 1 << (64 * h - 1), (1 << (64 * h - 33)) + 12345):
            for d in (-1, 0, 1, 2 * b):
                vals.append(b * b + d)
        seen = set()
        for u in vals:
            if u >> (64 * (n - 1)) and u >> (64 * n) == 0 and u not in seen:
                seen.add(u)
                yield (n, u)

    def ms_one(case, R):
        n, u = case
        set_cfg()
        h = (n + 1) // 2
        ou = G
        os_ = ou + n + G
        orr = os_ + h + G
        end = orr + n + G
        A = arena(end)
        s = math.isqrt(u)
        r = u - s * s
        for mode in (0, 1, 2):          # 0: separate remainder, 1: remainder in place over the source, 2: no remainder
            A.reset(end)
            A.put(ou, u, n)
            if mode == 0:
                rn = f_sqrtrem(A.addr(os_), A.addr(orr), A.addr(ou), n)
                gr = A.get(orr, rn) if 0 < rn <= n else (0 if rn == 0 else -1)
            elif mode == 1:
                rn = f_sqrtrem(A.addr(os_), A.addr(ou), A.addr(ou), n)
                gr = A.get(ou, rn) if 0 < rn <= n else (0 if rn == 0 else -1)
            else:
                rn = f_sqrtrem(A.addr(os_), None, A.addr(ou), n)
                gr = r if bool(rn) == bool(r) else -1
            gs = A.get(os_, h)
            if gs != s or gr != r or (mode < 2 and rn != al.nl(r)):
                R.fail("mpn_sqrtrem", "n=%d mode %d u=%x: root %s, remainder/return %s (ret %d)" % (n, mode, u, "ok" if gs == s else "WRONG", "ok" if gr == r else "WRONG", rn))
            if mode != 1 and A.get(ou, n) != u:
                R.fail("mpn_sqrtrem", "source modified")
            if not A.untouched(end, [(ou, n), (os_, h), (orr, n if mode == 0 else 0)]):
                R.fail("mpn_sqrtrem", "n=%d mode %d: wrote outside the documented areas" % (n, mode))
        A.reset(end)
        A.put(ou, u, n)
        p = f_psq(A.addr(ou), n)
        if bool(p) != (r == 0) or A.get(ou, n) != u:
            R.fail("mpn_perfect_square_p", "n=%d u=%x: returned %d" % (n, u, p))
        return (n, r == 0, al.nl(r))

    NM = 40 if quick else 90
    if variant == "asan":
        NM = 24
    sp.append(Space("mpn_sqrtrem", list(range(1, NM + 1)), ms_cases, ms_one,
                    "mpn_sqrtrem (remainder separate / in place / NULL) and mpn_perfect_square_p: n=1..%d x RUN(L5,n,2)+PAT+squares+-1 with non-zero top limb" % NM))
    return sp
