"""C06  Radix conversion is exact in every base and round-trips."""
import os, ctypes, random
from ctypes import c_void_p, c_long, c_ulong, c_int, c_uint64, c_char_p, c_size_t, string_at, create_string_buffer, addressof
from .. import lib, alphabet as al, mpnops as mo, rt
from ..explore import Space

ID = "C06"
LEVEL = "exploration"
RULE = ("bounded-exhaustive enumeration: output side = every limb count 1..L x {PAT, RUN(L5,n,2) for small n, b^k-1, b^k, b^k+1} x EVERY base 2..62 and "
        "-2..-36 through mpz_get_str (caller buffer of sizeinbase+2 bytes inside a guard zone, and allocated), mpz_out_str, mpn_get_str, "
        "mpz_sizeinbase; input side = every digit-string length 1..D x 5 digit patterns x base set through mpz_set_str/init_set_str/inp_str/"
        "mpn_set_str, every string of <=3 characters over a 24-character alphabet (valid/invalid decision, prefixes, case rules, white space) in "
        "bases 0,2,8,10,16,36,37,62, mpq_set_str forms; pinned thresholds and run-time-threshold floor vector (GET_STR_DC 4, SET_STR_DC 100). "
        "Oracle: Python divide-and-conquer digit conversion. distinct_nontrivial = distinct (function, base, size/length, pattern) tuples.")
RULE = RULE + (" " + 'Later additions: every byte value 1..255 in seven short templates for mpz_set_str/init_set_str and mpz_inp_str in every base; mpz_sizeinbase on b^k and b^k-1 for every k up to 2600 and four huge k in every base.')
ASSUMPTIONS = ["Python integer divmod/pow based digit conversion is the reference model",
               "strings on which the manual is silent (white space after a minus sign or inside a prefix, '+' signs, a bare 0x/0b prefix) are not generated"]
BUDGET = {"quick": 420, "thorough": 3300}
M, H = al.M, al.H
G = mo.G
LOW = "0123456789abcdefghijklmnopqrstuvwxyz"
UPP = "0123456789ABCDEFGHIJKLMNOPQRSTUVWXYZ"
B62 = "0123456789ABCDEFGHIJKLMNOPQRSTUVWXYZabcdefghijklmnopqrstuvwxyz"
WS = " \t\n\v\f\r"


def passes(tier):
    return ["pin", "rt"] if tier == "quick" else ["pin", "rt", "asan"]


def load(variant):
    if variant == "rt":
        rt.load()
    else:
        lib.load(variant)


def digits_of(v, base):
    """list of digit values, most significant first, of v >= 0 in base >= 2"""
    if v == 0:
        return [0]
    if v < base:
        return [v]
    # divide and conquer
    pw = [base]
    while pw[-1] * pw[-1] <= v:
        pw.append(pw[-1] * pw[-1])

    def rec(x, i, pad):
        if i < 0:
            return [x]
        hi, lo = divmod(x, pw[i])
        if hi == 0 and not pad:
            return rec(lo, i - 1, False)
        return rec(hi, i - 1, pad) + rec(lo, i - 1, True)
    out = rec(v, len(pw) - 1, False)
    # strip leading zeros produced by padding of the top part
    k = 0
    while k < len(out) - 1 and out[k] == 0:
        k += 1
    return out[k:]


def to_str(v, base):
    ab = abs(base)
    alpha = B62 if ab > 36 else (UPP if base < 0 else LOW)
    s = "".join(alpha[d] for d in digits_of(abs(v), ab))
    return ("-" + s) if v < 0 else s


def from_digits(ds, base):
    if len(ds) <= 8:
        v = 0
        for d in ds:
            v = v * base + d
        return v
    h = len(ds) // 2
    return from_digits(ds[:len(ds) - h], base) * base ** h + from_digits(ds[len(ds) - h:], base)


def digit_value(ch, base):
    """value of character in `base` per the manual, or None"""
    if "0" <= ch <= "9":
        d = ord(ch) - 48
    elif "A" <= ch <= "Z":
        d = ord(ch) - 55
    elif "a" <= ch <= "z":
        d = ord(ch) - 87 if base <= 36 else ord(ch) - 61
    else:
        return None
    return d if d < base else None


def parse_ref(s, base):
    """reference for mpz_set_str: returns ('ok', value) | ('bad',) | ('skip',)"""
    i = 0
    n = len(s)
    while i < n and s[i] in WS:
        i += 1
    neg = False
    if i < n and s[i] == "-":
        neg = True
        i += 1
        if i < n and s[i] in WS:
            return ("skip",)
    if i < n and s[i] == "+":
        return ("skip",)
    b = base
    if base == 0:
        b = 10
        if i < n and s[i] == "0":
            b = 8
            if i + 1 < n and s[i + 1] in "xX":
                b = 16
                i += 2
                if i >= n or s[i] in WS:
                    return ("skip",)
            elif i + 1 < n and s[i + 1] in "bB":
                b = 2
                i += 2
                if i >= n or s[i] in WS:
                    return ("skip",)
            elif i + 1 < n and s[i + 1] in WS:
                return ("skip",)
    ds = []
    while i < n:
        ch = s[i]
        i += 1
        if ch in WS:
            continue
        d = digit_value(ch, b)
        if d is None:
            if base == 0 and ch in "xXbB" and len(ds) <= 1:
                return ("skip",)
            return ("bad",)
        ds.append(d)
    if not ds:
        return ("bad",)
    v = from_digits(ds, b)
    return ("ok", -v if neg else v)


def spaces(tier, variant, seed):
    P = c_void_p
    quick = tier == "quick"
    sp = []
    state = {"set": False}

    def set_cfg():
        if variant == "rt" and not state["set"]:
            rt.set_vector(rt.floor_vector())
            state["set"] = True

    f_get_str = lib.fn("mpz_get_str", c_void_p, c_void_p, c_int, P)
    f_sizeinbase = lib.fn("mpz_sizeinbase", c_size_t, P, c_int)
    f_out_str = lib.fn("mpz_out_str", c_size_t, c_void_p, c_int, P)
    f_nget = lib.fn("mpn_get_str", c_size_t, c_void_p, c_int, c_void_p, c_long)
    f_nset = lib.fn("mpn_set_str", c_long, c_void_p, c_void_p, c_size_t, c_int)
    f_set_str = lib.fn("mpz_set_str", c_int, P, c_char_p, c_int)
    f_iset_str = lib.fn("mpz_init_set_str", c_int, P, c_char_p, c_int)
    f_inp_str = lib.fn("mpz_inp_str", c_size_t, P, c_void_p, c_int)
    f_qset_str = lib.fn("mpq_set_str", c_int, P, c_char_p, c_int)
    f_qget_str = lib.fn("mpq_get_str", c_void_p, c_void_p, c_int, P)
    S = lib.S
    pool = {}

    def env():
        if not pool:
            pool["z"] = [lib.Z() for _ in range(3)]
            pool["vs"] = S.v_stream_new()
            pool["buf"] = create_string_buffer(1 << 20)
            pool["arena"] = mo.Arena(1 << 15)
            pool["q"] = lib.Q()
        return pool

    OUT_BASES = list(range(2, 63)) + list(range(-2, -37, -1))

    def check_get(R, v, base, tagx=""):
        e = env()
        z = e["z"][0]
        z.set(v)
        exp = to_str(v, base)
        sib = f_sizeinbase(z.p, abs(base)) if abs(base) <= 62 else 0
        nd = len(exp) - (1 if v < 0 else 0)
        ab = abs(base)
        if ab & (ab - 1) == 0:
            if sib != nd:
                R.fail("mpz_sizeinbase", "value %x base %d: got %d, exact size is %d" % (v, ab, sib, nd))
        elif sib not in (nd, nd + 1):
            R.fail("mpz_sizeinbase", "value %x base %d: got %d, digits %d" % (v, ab, sib, nd))
        # caller-supplied buffer of exactly sizeinbase+2 bytes inside a guard zone
        need = sib + 2
        buf = e["buf"]
        ctypes.memset(buf, 0xEE, need + 64)
        r = f_get_str(addressof(buf) + 32, base, z.p)
        raw = buf.raw[:need + 64]
        if r != addressof(buf) + 32:
            R.fail("mpz_get_str", "did not return the caller's buffer")
        got = raw[32:32 + need]
        nul = got.find(b"\0")
        if nul < 0 or got[:nul].decode("latin1") != exp:
            R.fail("mpz_get_str", "value %x base %d%s: got %r expected %r" % (v, base, tagx, got[:min(nul if nul >= 0 else 40, 60)], exp[:60]))
        if raw[:32] != b"\xee" * 32 or raw[32 + need:] != b"\xee" * 32:
            R.fail("mpz_get_str", "value %x base %d: wrote outside the sizeinbase+2 byte buffer" % (v, base))
        # library-allocated string: block must be strlen+1 bytes
        r = f_get_str(None, base, z.p)
        st = string_at(r)
        bs = S.v_block_size(r)
        if st.decode("latin1") != exp:
            R.fail("mpz_get_str", "allocated: value %x base %d: got %r" % (v, base, st[:60]))
        if bs != len(st) + 1:
            R.fail("mpz_get_str", "allocated block has %d bytes for a string of length %d" % (bs, len(st)))
        S.v_free(r, len(st) + 1)
        if z.get() != v:
            R.fail("mpz_get_str", "operand modified")
        # out_str through a stream
        fp = S.v_open_write(e["vs"], -1, 0)
        n = f_out_str(fp, base, z.p)
        S.v_fclose(fp)
        data = string_at(S.v_stream_data(e["vs"]), S.v_stream_len(e["vs"])) if S.v_stream_len(e["vs"]) else b""
        if data.decode("latin1") != exp or n != len(exp):
            R.fail("mpz_out_str", "value %x base %d: wrote %r returned %d" % (v, base, data[:60], n))
        return exp

    def go_cases(blk):
        n, part = blk
        vals = al.PATL(n, seed)
        if n <= 10:
            vals = vals + [x for x in al.RUN_list(al.L5, n, 2) if x >> (64 * (n - 1))]
        vals = [x for x in vals if x >> (64 * (n - 1))]
        for bi, base in enumerate(OUT_BASES):
            if bi % 4 != part:
                continue
            for vi, v in enumerate(vals):
                yield (n, base, v if (vi + bi) % 5 else -v)

    def go_one(case, R):
        n, base, v = case
        set_cfg()
        check_get(R, v, base)
        # mpn_get_str (raw digit values, leading zeros allowed, operand clobbered)
        if base > 0:
            e = env()
            A = e["arena"]
            a = abs(v)
            A.reset(n + 2 * G + 2)
            A.put(G, a, n)
            buf = e["buf"]
            cap = len(digits_of(al.ones(n), base)) + 1
            ctypes.memset(buf, 0xEE, cap + 64)
            cnt = f_nget(addressof(buf) + 32, base, A.addr(G), n)
            raw = buf.raw[:cap + 64]
            ds = list(raw[32:32 + cnt])
            k = 0
            while k < len(ds) - 1 and ds[k] == 0:
                k += 1
            if cnt > cap or ds[k:] != digits_of(a, base):
                R.fail("mpn_get_str", "n=%d base %d value %x: wrong digits (count %d)" % (n, base, a, cnt))
            if raw[:32] != b"\xee" * 32 or raw[32 + cap:] != b"\xee" * 32:
                R.fail("mpn_get_str", "n=%d base %d: wrote outside the documented buffer" % (n, base))
            if not A.untouched(n + 2 * G + 2, [(G, n + 1)]):
                R.fail("mpn_get_str", "n=%d base %d: wrote outside the operand" % (n, base))
        return ("get", n, base, al.sgn(v))

    L = 24 if quick else 80
    if variant == "asan":
        L = 12
    sp.append(Space("get_str_all_bases", [(n, part) for n in range(1, L + 1) for part in range(4)], go_cases, go_one,
                    "mpz_get_str (caller buffer sizeinbase+2 in guard zone; allocated: block == strlen+1), mpz_out_str, mpz_sizeinbase, mpn_get_str: "
                    "n=1..%d limbs x PAT (+RUN(L5,n,2) for n<=10) x every base 2..62,-2..-36" % L))
    big = [48, 64, 100, 140] if quick else [100, 140, 200, 400, 1000]
    if variant != "asan":
        def gb_cases(blk):
            n, base = blk
            for v in (al.ones(n), al.PAT(n)["dense"], 1 << (64 * n - 1)):
                yield (n, base, v)
        sp.append(Space("get_str_large", [(n, b) for n in big for b in (2, 3, 7, 10, 16, 36, 62, -36)], gb_cases, go_one,
                        "larger operands (%s limbs: beyond GET_STR_PRECOMPUTE_THRESHOLD) in bases 2,3,7,10,16,36,62,-36" % big))

    def pw_cases(blk):
        base = blk
        ab = abs(base)
        for k in list(range(0, 24)) + [31, 32, 33, 63, 64, 65, 100, 127, 128, 129, 200, 300]:
            for d in (-1, 0, 1):
                v = ab ** k + d
                if v >= 0:
                    yield (base, v)
                    yield (base, -v)
        for v in range(0, 70):
            yield (base, v)

    def pw_one(case, R):
        base, v = case
        set_cfg()
        check_get(R, v, base)
        return ("pow", base, al.nl(abs(v)), al.sgn(v))

    sp.append(Space("get_str_powers", OUT_BASES, pw_cases, pw_one, "b^k-1, b^k, b^k+1 (both signs) for k in 0..23,31..33,63..65,100,127..129,200,300 and 0..69, in every base"))

    # mpz_sizeinbase on b^k and b^k - 1 for EVERY k up to a few thousand and a few very large k, every base 2..62: its per-base constant
    # (digits per bit) is multiplied by the bit length, so an error in a table entry shows only from some size on
    KMAX = 2600 if quick else 9000
    KBIG = (5000, 20000, 60000, 150000) if quick else (12000, 20000, 60000, 150000, 400000)

    def sb_cases(blk):
        base, part = blk
        yield (base, part)

    def sb_one(case, R):
        base, part = case
        set_cfg()
        z = env()["z"][0]
        pow2 = base & (base - 1) == 0

        def chk(v, nd, what):
            z.set(v)
            sib = f_sizeinbase(z.p, base)
            if sib != nd and (pow2 or sib != nd + 1):
                R.fail("mpz_sizeinbase", "%s in base %d: got %d, it has exactly %d digits" % (what, base, sib, nd))
            z.set(-v)
            if f_sizeinbase(z.p, base) != sib:
                R.fail("mpz_sizeinbase", "-(%s) in base %d differs from the positive value" % (what, base))
        if part == 0:
            v = 1
            for k in range(1, KMAX + 1):
                v *= base
                chk(v, k + 1, "%d^%d" % (base, k))
                chk(v - 1, k, "%d^%d-1" % (base, k))
        else:
            for k in KBIG:
                v = base ** k
                chk(v, k + 1, "%d^%d" % (base, k))
                chk(v - 1, k, "%d^%d-1" % (base, k))
        R.count("sizeinbase_values", 4 * (KMAX if part == 0 else len(KBIG)))
        return ("sib", base, part)

    sp.append(Space("sizeinbase_powers", [(b, part) for b in range(2, 63) for part in (0, 1)], sb_cases, sb_one,
                    "mpz_sizeinbase(+-b^k) and (+-(b^k-1)) for every k = 1..%d and k in %s, every base 2..62: exact for powers of two, exact or exact+1 otherwise" % (KMAX, list(KBIG))))

    # ---------------- input side ----------------
    def make_digits(length, pat, base):
        top = base - 1
        if pat == 0:
            return [top] * length
        if pat == 1:
            return [1] + [0] * (length - 1)
        if pat == 2:
            return [1] + [0] * (length - 2) + [1] if length > 1 else [1]
        if pat == 3:
            return [(i % (base - 1)) + 1 if i == 0 else (i * 7 + 3) % base for i in range(length)]
        r = random.Random(length * 131 + base + 7 * seed)
        return [r.randrange(1, base)] + [r.randrange(base) for _ in range(length - 1)]

    def alpha_for(base):
        return B62 if base > 36 else LOW

    def check_set(R, s, base, expect_val, what):
        """s: str; expect_val int or None (must be rejected)"""
        e = env()
        z, z2 = e["z"][0], e["z"][1]
        z.set(12345, alloc=1)
        bs = s.encode("latin1")
        r = f_set_str(z.p, bs, base)
        if expect_val is None:
            if r != -1:
                R.fail("mpz_set_str", "%s: invalid string %r base %d accepted (returned %d, value %x)" % (what, s[:40], base, r, z.get()))
        else:
            if r != 0 or z.get() != expect_val:
                R.fail("mpz_set_str", "%s: string %r... base %d: returned %d, value %s" % (what, s[:40], base, r, "ok" if z.get() == expect_val else "WRONG"))
        m = z.wf()
        if m:
            R.fail("mpz_set_str", "%s: result ill-formed: %s" % (what, m))
        # init_set_str on raw storage
        raw = lib.MPZ()
        pr = addressof(raw)
        r = f_iset_str(pr, bs, base)
        g = lib.zget(pr)
        if expect_val is None:
            if r != -1:
                R.fail("mpz_init_set_str", "%s: invalid string %r base %d accepted" % (what, s[:40], base))
        elif r != 0 or g != expect_val:
            R.fail("mpz_init_set_str", "%s: string %r... base %d: returned %d, value %s" % (what, s[:40], base, r, "ok" if g == expect_val else "WRONG"))
        lib.zclear(pr)

    def check_inp(R, s, base, expect_val, consumed, what):
        e = env()
        z = e["z"][0]
        z.set(777, alloc=1)
        bs = s.encode("latin1")
        fp = S.v_open_read(e["vs"], bs, len(bs), -1, 0, 0, 0)
        r = f_inp_str(z.p, fp, base)
        nxt = S.v_getc(fp)
        S.v_fclose(fp)
        if expect_val is None:
            if r != 0:
                R.fail("mpz_inp_str", "%s: %r base %d: returned %d for a non-number" % (what, s[:40], base, r))
        else:
            if r != consumed or z.get() != expect_val:
                R.fail("mpz_inp_str", "%s: %r... base %d: returned %d (expected %d), value %s" % (what, s[:40], base, r, consumed, "ok" if z.get() == expect_val else "WRONG"))
            exp_next = ord(s[consumed]) if consumed < len(s) else -1
            if nxt != exp_next:
                R.fail("mpz_inp_str", "%s: next character after the number is %d, expected %d" % (what, nxt, exp_next))
        m = z.wf()
        if m:
            R.fail("mpz_inp_str", "%s: result ill-formed: %s" % (what, m))

    IN_BASES = [2, 3, 10, 16, 36, 62] if quick else [2, 3, 5, 7, 8, 10, 11, 16, 27, 32, 36, 37, 61, 62]
    D = 2300 if quick else 4200
    if variant == "asan":
        D = 500

    def ss_cases(blk):
        base, lo, hi = blk
        for ln in range(lo, hi):
            for pat in range(5):
                yield (base, ln, pat)

    def ss_one(case, R):
        base, ln, pat = case
        set_cfg()
        ds = make_digits(ln, pat, base)
        v = from_digits(ds, base)
        al_ = alpha_for(base)
        s = "".join(al_[d] for d in ds)
        neg = (ln + pat) % 3 == 0
        if neg:
            s, v = "-" + s, -v
        check_set(R, s, base, v, "len %d pat %d" % (ln, pat))
        if (ln + pat) % 4 == 0:
            check_inp(R, s, base, v, len(s), "len %d pat %d" % (ln, pat))
        if ln % 16 == pat:
            # mixed case / embedded white space / trailing terminator
            if base <= 36:
                check_set(R, s.upper(), base, v, "upper case")
            ws = s[:len(s) // 2] + " \t" + s[len(s) // 2:] if len(s) > 2 else s
            if not neg or len(s) // 2 > 1:
                check_set(R, ws, base, v, "embedded white space")
            check_set(R, "  \n" + s, base, v, "leading white space")
            check_inp(R, " \n" + s + ")", base, v, len(s) + 2, "inp_str with leading white space and terminator")
        # mpn_set_str on raw digit values
        e = env()
        A = e["arena"]
        nl_ = al.nl(abs(v)) or 1
        # documented room: enough limbs for strsize digits
        room = (ln * (base - 1).bit_length() + 63) // 64 + 1
        A.reset(room + 2 * G)
        rawd = bytes(ds)
        cnt = f_nset(A.addr(G), rawd, ln, base)
        if cnt != al.nl(abs(v)) or A.get(G, cnt) != abs(v):
            R.fail("mpn_set_str", "base %d len %d pat %d: returned %d limbs (expected %d), value %s" % (base, ln, pat, cnt, al.nl(abs(v)), "ok" if cnt > 0 and A.get(G, cnt) == abs(v) else "WRONG"))
        if not A.untouched(room + 2 * G, [(G, room)]):
            R.fail("mpn_set_str", "base %d len %d: wrote outside the destination" % (base, ln))
        return ("set", base, ln, pat)

    step = 25
    sp.append(Space("set_str_lengths", [(b, lo, min(lo + step, D + 1)) for b in IN_BASES for lo in range(1, D + 1, step)], ss_cases, ss_one,
                    "mpz_set_str, mpz_init_set_str, mpn_set_str (every case), mpz_inp_str (every 4th), case/white-space variants (every 16th): "
                    "every digit count 1..%d x 5 patterns x bases %s" % (D, IN_BASES)))

    # short strings over the whole character alphabet
    CH = "0179aAfFgzZxXbB- \t+/._@"
    SB = [0, 2, 8, 10, 16, 36, 37, 62]

    def sh_cases(blk):
        base, c0 = blk
        yield (base, "")
        yield (base, c0)
        for c1 in CH:
            yield (base, c0 + c1)
            for c2 in CH:
                yield (base, c0 + c1 + c2)
                if not quick and c0 in "0-1 ":
                    for c3 in "01a9xZ -":
                        yield (base, c0 + c1 + c2 + c3)

    def sh_one(case, R):
        base, s = case
        set_cfg()
        ref = parse_ref(s, base)
        if ref[0] == "skip":
            return ("short", base, "skip")
        check_set(R, s, base, ref[1] if ref[0] == "ok" else None, "short string")
        return ("short", base, ref[0], len(s), s[:1])

    sp.append(Space("set_str_short_strings", [(b, c) for b in SB for c in CH], sh_cases, sh_one,
                    "every string of <=3 characters over %r in bases %s: accepted with the exact value or rejected with -1 per the manual" % (CH, SB)))

    # every byte value 1..255 at the first, a middle and the last position of short numbers, every input base: bytes >= 0x80 index the
    # digit table as unsigned chars only if every read of the string is cast, control characters and punctuation are never digits
    EB = list(range(2, 63)) + [0]

    def eb_cases(blk):
        base = blk
        for c in range(1, 256):
            ch = chr(c)
            for tpl in ("%s", "1%s", "%s1", "1%s1", "-%s", "-1%s0", "10%s"):
                yield (base, tpl % ch)

    def eb_one(case, R):
        base, s = case
        set_cfg()
        ref = parse_ref(s, base)
        if ref[0] == "skip":
            return ("byte", base, "skip")
        check_set(R, s, base, ref[1] if ref[0] == "ok" else None, "byte %#x in %r" % (max(ord(c) for c in s), s))
        if base:
            # the stream reader: leading white space and sign, then the longest run of digits of the base; no digit at all = 0 returned
            for t in (s, " " + s, "-" + s if not s.startswith("-") else "\n" + s, " \t-" + s.lstrip("-")):
                i = 0
                while i < len(t) and t[i] in WS:
                    i += 1
                neg = i < len(t) and t[i] == "-"
                if neg:
                    i += 1
                v, nd = 0, 0
                while i < len(t) and digit_value(t[i], base) is not None:
                    v = v * base + digit_value(t[i], base)
                    i += 1
                    nd += 1
                check_inp(R, t, base, (-v if neg else v) if nd else None, i, "stream %r" % t)
        return ("byte", base, ref[0], len(s), ord(s[-1]) >> 4)

    sp.append(Space("set_str_every_byte", EB, eb_cases, eb_one,
                    "mpz_set_str / mpz_init_set_str (and mpz_inp_str with leading white space / sign, bases 2..62): every byte value 1..255 placed first, in the middle and last in seven short templates, bases 0 and 2..62"))

    # mpq_set_str / mpq_get_str
    QN = [0, 1, -1, 7, -12, 255, 1 << 64, -((1 << 64) + 1), al.PAT(3)["dense"], 10 ** 30]
    QD = [1, 2, 3, 12, 255, 1 << 64, (1 << 64) + 1, 10 ** 20 + 1]

    def q_cases(blk):
        base = blk
        for n in QN:
            yield (base, n, None)
            for d in QD:
                yield (base, n, d)

    def q_one(case, R):
        base, n, d = case
        set_cfg()
        e = env()
        q = e["q"]
        ab = base if base else 10
        s = to_str(n, ab) if d is None else to_str(n, ab) + "/" + to_str(d, ab)
        if base == 0:
            s = ("-" if n < 0 else "") + "0x" + to_str(abs(n), 16) + ("" if d is None else "/0" + to_str(d, 8))
        sbase = abs(base)         # negative bases exist for output only; input ignores case up to base 36
        r = f_qset_str(q.p, s.encode(), sbase)
        gn, gd = q.raw()
        if r != 0 or gn != n or gd != (1 if d is None else d):
            R.fail("mpq_set_str", "%r base %d: returned %d, got %x/%x" % (s[:50], base, r, gn, gd))
        bad = s + "/" if d is None else s.replace("/", "/ /")
        r = f_qset_str(q.p, (s + "$").encode(), sbase)
        if r != -1:
            R.fail("mpq_set_str", "invalid %r accepted" % (s + "$")[:50])
        if base:
            import math
            from fractions import Fraction
            q.set(n, 1 if d is None else d)
            p_ = f_qget_str(None, base, q.p)
            st = string_at(p_).decode("latin1")
            exp = to_str(n, base) if (d is None or d == 1) else to_str(n, base) + "/" + to_str(d, base)
            if st != exp:
                R.fail("mpq_get_str", "%x/%s base %d: got %r" % (n, d, base, st[:60]))
            if S.v_block_size(p_) != len(st) + 1:
                R.fail("mpq_get_str", "allocated block %d bytes for string length %d" % (S.v_block_size(p_), len(st)))
            S.v_free(p_, len(st) + 1)
        return ("q", base, al.sgn(n), d is None)

    sp.append(Space("mpq_set_get_str", [0, 2, 10, 16, 36, 62, -16], q_cases, q_one, "mpq_set_str (integer and n/d forms, per-part base-0 prefixes, trailing garbage rejected), mpq_get_str"))
    return sp
