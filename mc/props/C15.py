"""C15  Concurrent use from several threads is race-free and gives sequential results."""
import os, sys, json, time, subprocess, tempfile, shutil, re
from concurrent.futures import ThreadPoolExecutor
from .. import build, report

ID = "C15"
LEVEL = "model_checking"
ENGINE = "schedule-explorer"
TECHNIQUE = ("stateless exhaustive schedule exploration of real threads running real MPIR calls under a controlled scheduler (iterative preemption "
             "bounding), a page-protection write monitor on the library's static segment and on the shared source operands, and a free-running ThreadSanitizer pass")
RULE = ("implementation-level stateless model checking: T real threads each run one (or two) operations from a 25-entry menu of reentrant calls (one per "
        "anchored shortcut: stack/heap/FFT scratch, division, gcdext, powm, radix conversion above the power-table size, factorial/Fibonacci/binomial, "
        "primality with the internal random state, private MT and LC generators and copies, formatted I/O, mpf, mpq, mpn) on the SAME read-only source "
        "objects; every ordered pair (triples: a fixed fifth) is a harness.  The library's writable static segment (found with dl_iterate_phdr, "
        "LD_BIND_NOW) and the shared sources are mapped read-only: any write traps and is a violation (shared mutable state the manual does not list); "
        "without one, threads touch only private memory and all interleavings are equivalent.  The explorer still enumerates EVERY schedule with <= PB "
        "preemptions over the scheduling points (operation boundaries, the first 6 allocator calls of an operation and every 2^k-th after) and compares "
        "each thread's digest with its sequential run; every failing schedule is replayable.  The same bodies run free under ThreadSanitizer. states = "
        "schedules executed, transitions = scheduling decisions.")
ASSUMPTIONS = ["page (4 KiB) granularity over-approximates sharing; memory-model effects below sequential consistency are left to ThreadSanitizer on the executed runs",
               "the documented shared state (memory-function pointers, default mpf precision, global random state of the obsolete functions) is not exercised concurrently",
               "allocator scheduling points are thinned (first 6, then powers of two per operation): sound only together with the write monitor"]
ROOT = os.path.dirname(os.path.dirname(os.path.dirname(os.path.abspath(__file__))))
SRC = os.path.join(ROOT, "mc", "sched", "c15.c")


def _compile(meta, out, tsan=False):
    inc = meta["include"]
    if tsan:
        cmd = ["gcc", "-O1", "-g", "-fsanitize=thread", "-pthread", "-I", inc, "-o", out, SRC, os.path.join(meta["dir"], "libmpir.a")]
    else:
        link = os.path.join(meta["dir"], "libmpir.so.23")
        if not os.path.exists(link):
            try:
                os.symlink("libmpir.so", link)
            except FileExistsError:
                pass
        cmd = ["gcc", "-O1", "-g", "-pthread", "-I", inc, "-o", out, SRC, os.path.join(meta["dir"], "libmpir.so"), "-Wl,-rpath," + meta["dir"]]
    r = subprocess.run(cmd, capture_output=True, text=True)
    if r.returncode != 0:
        raise RuntimeError("cannot compile the C15 engine: " + r.stderr[-2000:])


def main(tier, seed, replay):
    t0 = time.time()
    quick = tier == "quick"
    work = tempfile.mkdtemp(prefix="verif-C15-")
    viol = []
    try:
        pin = build.get("pin")
        exe = os.path.join(work, "c15")
        _compile(pin, exe)
        env = dict(os.environ, LD_BIND_NOW="1")
        if replay:
            rp = json.load(open(replay))
            outs = []
            for i in range(2):
                r = subprocess.run([exe] + rp["args"], env=env, capture_output=True, text=True, timeout=3000)
                outs.append([l for l in r.stdout.splitlines() if l.startswith("VIOL")])
            print("\n".join(outs[0][:10]))
            if outs[0] != outs[1]:
                print("replay: NOT deterministic")
                return 2
            if outs[0]:
                print("VIOLATION property=C15 replay=%s" % replay)
                return 1
            print("replay: schedule passes")
            return 0
        confs = [(2, 2, False)] if quick else [(2, 3, False), (2, 2, True), (3, 2, False)]
        stats = {"harnesses": 0, "executions": 0, "scheduling_decisions": 0, "write_traps": 0, "max_points": 0, "capped": 0}
        per_conf = []
        NP = 16

        def run_part(args):
            T, PB, two, k = args
            a = ["--threads", str(T), "--pb", str(PB), "--part", str(k), str(NP)] + (["--two-ops"] if two else [])
            try:
                r = subprocess.run([exe] + a, env=env, capture_output=True, text=True, timeout=3000)
            except subprocess.TimeoutExpired:
                return a, None, "timeout"
            return a, r, None

        for T, PB, two in confs:
            cs = dict.fromkeys(stats, 0)
            with ThreadPoolExecutor(NP) as ex:
                for a, r, err in ex.map(run_part, [(T, PB, two, k) for k in range(NP)]):
                    if err or r is None:
                        viol.append({"space": "schedules", "kind": "hang", "msg": "exploration part %s did not finish (%s)" % (a, err), "case": " ".join(a), "args": a})
                        continue
                    done = [l for l in r.stdout.splitlines() if l.startswith("DONE")]
                    for l in r.stdout.splitlines():
                        if l.startswith("VIOL"):
                            m = re.search(r"op=(\S+)|plans (\[[^\]]*\]) (\[[^\]]*\])", l)
                            viol.append({"space": "schedules", "kind": l.split()[1], "msg": l[:600], "case": l[:300], "args": a})
                    if not done:
                        viol.append({"space": "schedules", "kind": "crash", "msg": "engine part %s exited with %s: %s" % (a, r.returncode, (r.stderr or r.stdout)[-400:]), "case": " ".join(a), "args": a})
                        continue
                    for kv in done[0].split()[1:]:
                        k_, v_ = kv.split("=")
                        if k_ in cs:
                            cs[k_] = max(cs[k_], int(v_)) if k_ == "max_points" else cs[k_] + int(v_)
            per_conf.append({"threads": T, "preemption_bound": PB, "two_ops_per_thread": two, **cs})
            for k_ in stats:
                stats[k_] = max(stats[k_], cs[k_]) if k_ == "max_points" else stats[k_] + cs[k_]
        # free-running ThreadSanitizer pass on the same bodies
        tsan_runs = 0
        tsan_reports = []
        try:
            ts = build.get("tsan")
            texe = os.path.join(work, "c15-tsan")
            _compile(ts, texe, tsan=True)
            tenv = dict(os.environ, TSAN_OPTIONS="halt_on_error=0 exitcode=0 report_signal_unsafe=0 history_size=4")

            def run_tsan(k):
                return subprocess.run([texe, "--free", "--threads", "2" if quick else "3", "--reps", "2" if quick else "6", "--part", str(k), "8"], env=tenv, capture_output=True, text=True, timeout=3000)
            with ThreadPoolExecutor(8) as ex:
                for r in ex.map(run_tsan, range(8)):
                    for l in r.stdout.splitlines():
                        if l.startswith("DONE"):
                            tsan_runs += int(re.search(r"runs=(\d+)", l).group(1))
                        if l.startswith("VIOL"):
                            viol.append({"space": "tsan-free-running", "kind": "free-running-result", "msg": l[:500], "case": l[:200], "args": ["--free"]})
                    reps = r.stderr.split("WARNING: ThreadSanitizer:")[1:]
                    for rep in reps:
                        if re.search(r"__gmp|mpn_|mpz_|mpf_|mpq_|mpir", rep):
                            tsan_reports.append(rep[:1500])
            seen = set()
            for rep in tsan_reports:
                key = re.sub(r"0x[0-9a-f]+|T\d+|tid=\d+", "", rep.split("\n")[0] + "".join(re.findall(r"#0 (\S+)", rep)[:2]))
                if key in seen:
                    continue
                seen.add(key)
                viol.append({"space": "tsan-free-running", "kind": "data-race", "msg": "ThreadSanitizer: " + rep[:900], "case": rep.split("\n")[0][:200], "args": ["--free"]})
        except Exception as e:
            viol.append({"space": "tsan-free-running", "kind": "engine-error", "msg": "cannot run the ThreadSanitizer pass: %r" % e, "case": "tsan", "args": []})
        results = [{"variant": "pin+tsan", "n": stats["executions"] + tsan_runs, "distinct": stats["executions"], "nfail": len(viol), "fails": viol[:50], "samples": [
            {"harness": "threads run [mul_fft] and [get_str] on the same sources", "schedule": "0 0 0 1 1 0 1 (thread chosen at each scheduling point; <=2 preemptions)"},
            {"configurations": per_conf}], "blocks": stats["harnesses"], "total_blocks": stats["harnesses"],
            "per_space": {"schedule_exploration": [stats["executions"], stats["harnesses"]], "tsan_free_running": [tsan_runs, 1]},
            "extra": dict(stats, tsan_runs=tsan_runs, tsan_reports=len(tsan_reports)), "errors": [], "exhaustive": stats["capped"] == 0 and not any(v["kind"] in ("hang", "crash", "engine-error") for v in viol),
            "wall_s": round(time.time() - t0, 1),
            "spaces": [{"name": "schedule_exploration", "blocks": stats["harnesses"], "doc": "every ordered pair of 25 menu operations x every schedule with <= PB preemptions; write monitor on static segment and shared sources"},
                       {"name": "tsan_free_running", "blocks": 1, "doc": "same bodies, free running, ThreadSanitizer build of the library"}]}]
        import mc.props.C15 as me
        return report.finish(me, ID, tier, seed, results, time.time() - t0,
                             extra_cov={"states": max(1, stats["executions"]), "transitions": max(1, stats["scheduling_decisions"]), "traces_validated_against_impl": stats["executions"],
                                        "write_traps_on_static_segment_or_shared_sources": stats["write_traps"], "preemption_bounds": per_conf})
    finally:
        shutil.rmtree(work, ignore_errors=True)
