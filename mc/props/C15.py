"""C15  Concurrent use from several threads is race-free and gives sequential results."""
import os, sys, json, time, subprocess, tempfile, shutil, re
from concurrent.futures import ThreadPoolExecutor
from .. import build, report

ID = "C15"
LEVEL = "model_checking"
ENGINE = "schedule-explorer"
TECHNIQUE = ("stateless exhaustive schedule exploration of real threads running real MPIR calls under a controlled scheduler (iterative preemption "
             "bounding), a page-protection write monitor on the library's static segment and on the shared source operands, and a free-running ThreadSanitizer pass")
RULE = ("implementation-level stateless model checking: T real threads each run one (or two) operations from a 40-entry menu of reentrant calls (one per "
        "anchored shortcut: stack/heap/FFT scratch, division, gcdext, powm, radix conversion above the power-table size, factorial/Fibonacci/binomial, "
        "primality with the internal random state, private MT and LC generators and copies, formatted I/O, mpf, mpq, mpn) on the SAME read-only source "
        "objects; every ordered pair (triples: a fixed fifth) is a harness.  The library's writable static segment (found with dl_iterate_phdr, "
        "LD_BIND_NOW) and the shared sources are mapped read-only: any write traps and is a violation (shared mutable state the manual does not list); "
        "without one, threads touch only private memory and all interleavings are equivalent.  The same monitor is applied, schedule-independently, to EVERY "
        "public function parsed from mpir.h (api sweep: inputs - structs and limbs - in a read-only arena, one call per argument tuple) and to hand-written calls "
        "of the entry points the table cannot express; its self test must trap a known write.  The explorer still enumerates EVERY schedule with <= PB "
        "preemptions over the scheduling points (operation boundaries, the first 6 allocator calls of an operation and every 2^k-th after) and compares "
        "each thread's digest with its sequential run; every failing schedule is replayable.  The same bodies run free under ThreadSanitizer. states = "
        "schedules executed, transitions = scheduling decisions.")
ASSUMPTIONS = ["page (4 KiB) granularity over-approximates sharing; memory-model effects below sequential consistency are left to ThreadSanitizer on the executed runs",
               "the documented shared state (memory-function pointers, default mpf precision, global random state of the obsolete functions) is not exercised concurrently",
               "allocator scheduling points are thinned (first 6, then powers of two per operation): sound only together with the write monitor"]
ROOT = os.path.dirname(os.path.dirname(os.path.dirname(os.path.abspath(__file__))))
SRC = os.path.join(ROOT, "mc", "sched", "c15.c")


# ----------------------------------------------------------------------------------------------------------------------------
# API sweep under the write monitor (run through mc.runpass with LD_BIND_NOW=1): EVERY public function of the parsed table is called
# once per argument tuple with all its inputs (structs and limbs) placed in a read-only arena and libmpir's writable static segment
# mapped read-only.  A single trapped write is shared mutable state the manual does not list: it makes concurrent calls on shared
# sources a race regardless of the schedule, so no schedule enumeration is needed for this part.
BUDGET = {"quick": 600, "thorough": 2400}


def passes(tier):
    return ["pin"]


def load(variant):
    from .. import lib
    lib.load(variant)


def spaces(tier, variant, seed):
    import ctypes, itertools
    from ctypes import c_void_p, c_size_t, c_long, c_int, addressof, memmove
    from fractions import Fraction
    from .. import lib, api, alphabet as al
    from ..explore import Space
    quick = tier == "quick"
    S = lib.S
    S.v_mon_init.restype = c_int
    S.v_mon_init.argtypes = [c_size_t]
    S.v_mon_arena.restype = c_void_p
    S.v_mon_traps.restype = c_long
    for nm in ("v_mon_trap_addr", "v_mon_trap_rip", "v_mon_seg_lo", "v_mon_seg_hi"):
        getattr(S, nm).restype = c_size_t
        getattr(S, nm).argtypes = [c_int]
    st = {"init": False}
    T = api.table()
    names = sorted(n for n in T if api.SCALARS.get(n, 1) is not None)
    FPREC = 128

    def init():
        if not st["init"]:
            if S.v_mon_init(1 << 20) <= 0:
                raise RuntimeError("write monitor: libmpir's writable segment not found")
            st["base"] = S.v_mon_arena()
            st["init"] = True
            st["syms"] = None

    def place(off, raw):
        memmove(st["base"] + off, raw, len(raw))
        return off + ((len(raw) + 15) & ~15)

    def put_z_at(off, struct_addr, v):
        """limbs of |v| at arena offset off; fills the MPZ at struct_addr; returns next offset"""
        n = al.nl(abs(v))
        raw = abs(v).to_bytes(8 * max(n, 1), "little")
        z = lib.MPZ.from_address(struct_addr)
        z.alloc, z.size, z.d = max(n, 1), (n if v >= 0 else -n), st["base"] + off
        return place(off, raw)

    def sw_cases(blk):
        name = blk
        if name == "#selftest":
            yield (name, ())
            return
        fn = T[name]
        doms = []
        for i, (k, r) in enumerate(fn.params):
            if k in "ZQF" and r == "o":
                doms.append([None])
            else:
                vals = api.default_vals(k, fn.name, i, True)
                doms.append(vals[:6] if quick else vals[:10])
        cnt = 0
        for args in itertools.product(*doms):
            if not api.precondition(fn, args):
                continue
            cnt += 1
            if cnt > (48 if quick else 400):
                break
            yield (name, args)

    def sw_one(case, R):
        name, args = case
        init()
        if name == "#selftest":
            # the monitor must see (1) a write to the library's static data: mpf_set_default_prec stores the global default precision,
            # (2) a write to an input placed in the arena: mpz_neg in place on an arena object flips its size field
            gp = lib.fn("mpf_get_default_prec", ctypes.c_ulong)
            sp_ = lib.fn("mpf_set_default_prec", None, ctypes.c_ulong)
            cur = gp()
            S.v_mon_reset(); S.v_mon_set(1)
            sp_(cur)
            S.v_mon_set(0)
            t1 = S.v_mon_traps()
            sa = st["base"]
            put_z_at(16, sa, 12345)
            fneg = lib.fn("mpz_neg", None, c_void_p, c_void_p)
            S.v_mon_reset(); S.v_mon_set(1)
            fneg(sa, sa)
            S.v_mon_set(0)
            t2 = S.v_mon_traps()
            if t1 < 1 or t2 < 1 or lib.zget(sa) != -12345:
                R.fail("monitor-selftest", "the write monitor did not trap a known write (static data: %d trap(s), arena operand: %d trap(s)) - LD_BIND_NOW set? segment found?" % (t1, t2))
            R.count("monitor_selftest_traps", t1 + t2)
            return ("selftest", t1 > 0, t2 > 0)
        fn = T[name]
        off = 0
        cargs = []
        keep = []
        for (k, r), a in zip(fn.params, args):
            if k in "ZQF" and r in ("o", "w"):
                if k == "Z":
                    o = lib.Z()
                    if a is not None:
                        o.set(a)
                elif k == "Q":
                    o = lib.Q()
                    if a is not None:
                        o.set(a.numerator, a.denominator)
                else:
                    o = lib.F(FPREC)
                    if a is not None:
                        o.set_frac(a)
                keep.append(o)
                cargs.append(o.p)
            elif k == "Z":
                sa = st["base"] + off
                off += 16
                off = put_z_at(off, sa, a)
                cargs.append(sa)
            elif k == "Q":
                sa = st["base"] + off
                off += 32
                off = put_z_at(off, sa, a.numerator)
                off = put_z_at(off, sa + 16, a.denominator)
                cargs.append(sa)
            elif k == "F":
                # build the value in an ordinary mpf, then copy struct and limbs into the arena
                o = lib.F(FPREC)
                o.set_frac(a)
                keep.append(o)
                src = lib.MPF.from_address(o.p)
                n = abs(src.size)
                sa = st["base"] + off
                off += 32
                dst = lib.MPF.from_address(sa)
                dst.prec, dst.size, dst.exp, dst.d = src.prec, src.size, src.exp, st["base"] + off
                off = place(off, ctypes.string_at(src.d, 8 * max(n, 1)))
                cargs.append(sa)
            else:
                cargs.append(a)
        f = fn.f()
        S.v_mon_reset()
        S.v_mon_set(1)
        try:
            f(*cargs)
        finally:
            S.v_mon_set(0)
        nt = S.v_mon_traps()
        if nt:
            what = []
            for i in range(min(nt, 3)):
                a_, rip = S.v_mon_trap_addr(i), S.v_mon_trap_rip(i)
                what.append("%s written from %s" % (_symbolize(a_, st), _symbolize(rip, st)))
            R.fail(name, "args %s: %d write(s) to shared storage (library static data or an input operand): %s" % (str(args)[:160], nt, "; ".join(what)))
        R.count("states", 1)
        return (name, nt == 0)

    # ---- entry points the parsed table cannot express (random states, strings, raw buffers, varargs, mpn): hand-written calls ----
    P = c_void_p
    M521 = (1 << 521) - 1
    BIGZ = [M521, 1000003, (1 << 89) - 1, 1000003 * 1000033, (1 << 127) - 1, ((1 << 521) - 1) * ((1 << 89) - 1), al.PAT(40, 3)["dense"] | 1, (1 << 2000) + 1, 97, 1]

    class Ar:
        """bump allocation of read-only inputs in the monitor arena (reset per case)"""
        def __init__(self):
            self.off = 0

        def z(self, v):
            sa = st["base"] + self.off
            self.off += 16
            self.off = put_z_at(self.off, sa, v)
            return sa

        def limbs(self, v, n):
            a = st["base"] + self.off
            self.off = place(self.off, v.to_bytes(8 * n, "little"))
            return a

        def bytes_(self, b):
            a = st["base"] + self.off
            self.off = place(self.off, b + b"\0")
            return a

        def q(self, fr):
            sa = st["base"] + self.off
            self.off += 32
            self.off = put_z_at(self.off, sa, fr.numerator)
            self.off = put_z_at(self.off, sa + 16, fr.denominator)
            return sa

        def f(self, fr, keep):
            o = lib.F(FPREC)
            o.set_frac(fr)
            keep.append(o)
            src = lib.MPF.from_address(o.p)
            n = abs(src.size)
            sa = st["base"] + self.off
            self.off += 32
            dst = lib.MPF.from_address(sa)
            dst.prec, dst.size, dst.exp, dst.d = src.prec, src.size, src.exp, st["base"] + self.off
            self.off = place(self.off, ctypes.string_at(src.d, 8 * max(n, 1)))
            return sa

    def mon(R, label, f, *cargs):
        S.v_mon_reset()
        S.v_mon_set(1)
        try:
            r = f(*cargs)
        finally:
            S.v_mon_set(0)
        nt = S.v_mon_traps()
        if nt:
            what = ["%s written from %s" % (_symbolize(S.v_mon_trap_addr(i), st), _symbolize(S.v_mon_trap_rip(i), st)) for i in range(min(nt, 3))]
            R.fail(label, "%d write(s) to shared storage (library static data or an input operand): %s" % (nt, "; ".join(what)))
        R.count("states", 1)
        return r

    def rstate(kind, seed):
        stt = (ctypes.c_char * 64)()
        p = addressof(stt)
        if kind == 0:
            lib.fn("gmp_randinit_default", None, P)(p)
        elif kind == 1:
            lib.fn("gmp_randinit_mt", None, P)(p)
        else:
            lib.fn("gmp_randinit_lc_2exp_size", c_int, P, ctypes.c_ulong)(p, 64)
        lib.fn("gmp_randseed_ui", None, P, ctypes.c_ulong)(p, seed)
        return stt, p

    UL, SZ = ctypes.c_ulong, c_size_t
    g_snprintf = lib.sym("gmp_snprintf")
    g_sscanf = lib.sym("gmp_sscanf")

    def ex_cases(blk):
        what = blk
        n = {"prime": len(BIGZ), "random": 9, "strings": len(BIGZ), "printf": 6, "mpn": 12, "export": len(BIGZ)}[what]
        for i in range(n):
            yield (what, i)

    def ex_one(case, R):
        what, i = case
        init()
        A = Ar()
        keep = []
        r = lib.Z()
        r2 = lib.Z()
        if what == "prime":
            v = BIGZ[i]
            for kind in (0, 1, 2):
                stt, p = rstate(kind, 77 + i)
                zn = A.z(v)
                mon(R, "mpz_probable_prime_p", lib.fn("mpz_probable_prime_p", c_int, P, P, c_int, UL), zn, p, 10, 0)
                mon(R, "mpz_likely_prime_p", lib.fn("mpz_likely_prime_p", c_int, P, P, UL), zn, p, 0)
                mon(R, "mpz_next_prime_candidate", lib.fn("mpz_next_prime_candidate", None, P, P, P), r.p, zn, p)
                mon(R, "mpz_miller_rabin", lib.fn("mpz_miller_rabin", c_int, P, c_int, P), zn, 5, p)
                lib.fn("gmp_randclear", None, P)(p)
            zn = A.z(v)
            mon(R, "mpz_probab_prime_p", lib.fn("mpz_probab_prime_p", c_int, P, c_int), zn, 10)
            mon(R, "mpz_nextprime", lib.fn("mpz_nextprime", None, P, P), r.p, zn)
            mon(R, "mpz_millerrabin", lib.fn("mpz_millerrabin", c_int, P, c_int), zn, 5)
        elif what == "random":
            kind, j = i % 3, i // 3
            stt, p = rstate(kind, 5 + j)
            zm = A.z([3, (1 << 64), al.PAT(5, 1)["dense"]][j])
            mon(R, "mpz_urandomm", lib.fn("mpz_urandomm", None, P, P, P), r.p, p, zm)
            mon(R, "mpz_urandomb", lib.fn("mpz_urandomb", None, P, P, UL), r.p, p, 300 + j)
            mon(R, "mpz_rrandomb", lib.fn("mpz_rrandomb", None, P, P, UL), r.p, p, 300 + j)
            mon(R, "gmp_urandomb_ui", lib.fn("gmp_urandomb_ui", UL, P, UL), p, 33)
            mon(R, "gmp_urandomm_ui", lib.fn("gmp_urandomm_ui", UL, P, UL), p, 1000003)
            fo = lib.F(FPREC)
            mon(R, "mpf_urandomb", lib.fn("mpf_urandomb", None, P, P, UL), fo.p, p, 100)
            mon(R, "gmp_randseed", lib.fn("gmp_randseed", None, P, P), p, zm)
            st2 = (ctypes.c_char * 64)()
            mon(R, "gmp_randinit_set", lib.fn("gmp_randinit_set", None, P, P), addressof(st2), p)
            lib.fn("gmp_randclear", None, P)(addressof(st2))
            lib.fn("gmp_randclear", None, P)(p)
        elif what == "strings":
            v = BIGZ[i] * (-1 if i % 2 else 1)
            zn = A.z(v)
            buf = ctypes.create_string_buffer(4096)
            for base in (2, 10, 16, 36, 62, -36):
                mon(R, "mpz_get_str", lib.fn("mpz_get_str", P, P, c_int, P), addressof(buf), base, zn)
                mon(R, "mpz_sizeinbase", lib.fn("mpz_sizeinbase", SZ, P, c_int), zn, abs(base))
            sp_ = A.bytes_(lib.int_to_str(v, 10).encode() if hasattr(lib, "int_to_str") else str(v).encode())
            mon(R, "mpz_set_str", lib.fn("mpz_set_str", c_int, P, P, c_int), r.p, sp_, 10)
            mon(R, "mpz_init_set_str+clear", lib.fn("mpz_set_str", c_int, P, P, c_int), r2.p, sp_, 0)
            qn = A.q(Fraction(v, 1000003))
            mon(R, "mpq_get_str", lib.fn("mpq_get_str", P, P, c_int, P), addressof(buf), 10, qn)
            qo = lib.Q()
            mon(R, "mpq_set_str", lib.fn("mpq_set_str", c_int, P, P, c_int), qo.p, A.bytes_(b"-22/7"), 10)
            fn_ = A.f(Fraction(v % (1 << 100), 1 << 40), keep)
            ex = c_long(0)
            mon(R, "mpf_get_str", lib.fn("mpf_get_str", P, P, P, c_int, SZ, P), addressof(buf), ctypes.addressof(ex), 10, 30, fn_)
            fo = lib.F(FPREC)
            mon(R, "mpf_set_str", lib.fn("mpf_set_str", c_int, P, P, c_int), fo.p, A.bytes_(b"-3.1415926535897932384626e-5"), 10)
        elif what == "printf":
            v = BIGZ[i]
            zn, qn, fn_ = A.z(-v), A.q(Fraction(v, 7)), A.f(Fraction(v % (1 << 90), 1 << 30), keep)
            buf = ctypes.create_string_buffer(8192)
            fmt = A.bytes_(b"%Zd|%#Zx|%40Qd|%.10Fe|%Fg|%.3Ff|%d|%s")
            mon(R, "gmp_snprintf", g_snprintf, c_void_p(addressof(buf)), c_size_t(8192), c_void_p(fmt), c_void_p(zn), c_void_p(zn), c_void_p(qn), c_void_p(fn_), c_void_p(fn_), c_void_p(fn_), c_int(5), c_void_p(A.bytes_(b"tail")))
            zo, qo, fo = lib.Z(), lib.Q(), lib.F(FPREC)
            mon(R, "gmp_sscanf", g_sscanf, c_void_p(A.bytes_(b"123456789012345678901234567890 -22/7 1.5e3")), c_void_p(A.bytes_(b"%Zd %Qd %Ff")), c_void_p(zo.p), c_void_p(qo.p), c_void_p(fo.p))
        elif what == "export":
            v = BIGZ[i]
            zn = A.z(v)
            buf = ctypes.create_string_buffer(8192)
            cnt = c_size_t(0)
            for size, nails, endian, order in ((1, 0, 0, 1), (4, 3, 1, -1), (8, 0, -1, 1), (16, 64, 0, 1), (3, 7, 1, -1)):
                mon(R, "mpz_export", lib.fn("mpz_export", P, P, P, c_int, SZ, c_int, SZ, P), addressof(buf), ctypes.addressof(cnt), order, size, endian, nails, zn)
                src = A.bytes_(buf.raw[:cnt.value * size])
                mon(R, "mpz_import", lib.fn("mpz_import", None, P, SZ, c_int, SZ, c_int, SZ, P), r.p, cnt.value, order, size, endian, nails, src)
            mon(R, "mpz_get_d", lib.fn("mpz_get_d", ctypes.c_double, P), zn)
            e_ = c_long(0)
            mon(R, "mpz_get_d_2exp", lib.fn("mpz_get_d_2exp", ctypes.c_double, P, P), ctypes.addressof(e_), zn)
        elif what == "mpn":
            sizes = [(1, 1), (2, 1), (5, 3), (16, 16), (17, 4), (40, 40), (64, 20), (130, 70), (300, 120), (600, 9), (1100, 8), (260, 260)]
            un, vn = sizes[i]
            u, v = al.PAT(un, i)["dense"] | (1 << (64 * un - 1)), al.PAT(vn, i + 1)["dense"] | (1 << (64 * vn - 1)) | 1
            up, vp = A.limbs(u, un), A.limbs(v, vn)
            out = (ctypes.c_uint64 * (un + vn + 4))()
            out2 = (ctypes.c_uint64 * (un + vn + 4))()
            po, po2 = addressof(out), addressof(out2)
            mon(R, "mpn_mul", lib.fn("mpn_mul", ctypes.c_uint64, P, P, c_long, P, c_long), po, up, un, vp, vn)
            mon(R, "mpn_sqr", lib.fn("mpn_sqr", None, P, P, c_long), po, vp, vn)
            mon(R, "mpn_tdiv_qr", lib.fn("mpn_tdiv_qr", None, P, P, c_long, P, c_long, P, c_long), po, po2, 0, up, un, vp, vn)
            mon(R, "mpn_add_n", lib.fn("mpn_add_n", ctypes.c_uint64, P, P, P, c_long), po, up, vp, vn)
            mon(R, "mpn_sub", lib.fn("mpn_sub", ctypes.c_uint64, P, P, c_long, P, c_long), po, up, un, vp, vn)
            mon(R, "mpn_lshift", lib.fn("mpn_lshift", ctypes.c_uint64, P, P, c_long, ctypes.c_uint), po, up, un, 13)
            mon(R, "mpn_rshift", lib.fn("mpn_rshift", ctypes.c_uint64, P, P, c_long, ctypes.c_uint), po, up, un, 13)
            mon(R, "mpn_divrem_1", lib.fn("mpn_divrem_1", ctypes.c_uint64, P, c_long, P, c_long, ctypes.c_uint64), po, 0, up, un, 1000003)
            mon(R, "mpn_mod_1", lib.fn("mpn_mod_1", ctypes.c_uint64, P, c_long, ctypes.c_uint64), up, un, (1 << 63) + 5)
            mon(R, "mpn_popcount", lib.fn("mpn_popcount", ctypes.c_ulong, P, c_long), up, un)
            mon(R, "mpn_hamdist", lib.fn("mpn_hamdist", ctypes.c_ulong, P, P, c_long), up, vp, vn)
            mon(R, "mpn_cmp", lib.fn("mpn_cmp", c_int, P, P, c_long), up, vp, vn)
            mon(R, "mpn_sqrtrem", lib.fn("mpn_sqrtrem", c_long, P, P, P, c_long), po, po2, up, un)
            mon(R, "mpn_perfect_square_p", lib.fn("mpn_perfect_square_p", c_int, P, c_long), up, un)
            mon(R, "mpn_mul_1", lib.fn("mpn_mul_1", ctypes.c_uint64, P, P, c_long, ctypes.c_uint64), po, up, un, 12345)
            mon(R, "mpn_addmul_1", lib.fn("mpn_addmul_1", ctypes.c_uint64, P, P, c_long, ctypes.c_uint64), po, up, un, 12345)
            mon(R, "mpn_gcd_1", lib.fn("mpn_gcd_1", ctypes.c_uint64, P, c_long, ctypes.c_uint64), up, un, 1000003 * 6)
            digs = A.bytes_(bytes((j * 7 + 1) % 10 for j in range(3 * un + 5)))
            mon(R, "mpn_set_str", lib.fn("mpn_set_str", c_long, P, P, SZ, c_int), po, digs, 3 * un + 5, 10)
        return (what, i)

    return [Space("entry_points_write_monitor", ["prime", "random", "strings", "printf", "export", "mpn"], ex_cases, ex_one,
                  "hand-written calls of the entry points the table cannot express (primality with caller-owned random states, random functions, string/raw conversions, "
                  "gmp_snprintf/gmp_sscanf, mpn kernels at 12 shapes) with every input in the read-only arena"),
            Space("api_sweep_write_monitor", ["#selftest"] + names, sw_cases, sw_one,
                  "%d public functions (parsed from mpir.h) x argument tuples: inputs (structs and limbs) in a read-only arena, libmpir's writable static segment read-only; any trapped write is a violation" % len(names))]


def _symbolize(addr, st):
    """name the library symbol that contains addr (nm on the loaded libmpir.so), or say that it is an input operand"""
    from .. import lib
    import subprocess as sp_
    base = st.get("base")
    if base and base <= addr < base + (1 << 20):
        return "input operand (arena+%#x)" % (addr - base)
    if st.get("syms") is None:
        syms = []
        lo = None
        for line in open("/proc/self/maps"):
            f = line.split()
            if len(f) >= 6 and f[5] == os.path.realpath(lib.META["so"]):
                a = int(f[0].split("-")[0], 16)
                lo = a if lo is None else min(lo, a)
        try:
            out = sp_.run(["nm", "-n", "--defined-only", lib.META["so"]], capture_output=True, text=True).stdout
            for l in out.splitlines():
                p = l.split()
                if len(p) == 3:
                    syms.append((int(p[0], 16), p[2]))
        except Exception:
            pass
        st["syms"], st["lo"] = syms, lo or 0
    rel = addr - st["lo"]
    best = None
    for a, n in st["syms"]:
        if a <= rel:
            best = (a, n)
        else:
            break
    return "%s+%#x" % (best[1], rel - best[0]) if best else hex(addr)


def _compile(meta, out, tsan=False):
    inc = meta["include"]
    if tsan:
        cmd = ["gcc", "-O1", "-g", "-fsanitize=thread", "-pthread", "-I", inc, "-o", out, SRC, os.path.join(meta["dir"], "libmpir.a")]
    else:
        link = os.path.join(meta["dir"], "libmpir.so.23")
        if not os.path.exists(link):
            try:
                os.symlink("libmpir.so", link)
            except FileExistsError:
                pass
        cmd = ["gcc", "-O1", "-g", "-pthread", "-I", inc, "-o", out, SRC, os.path.join(meta["dir"], "libmpir.so"), "-Wl,-rpath," + meta["dir"]]
    r = subprocess.run(cmd, capture_output=True, text=True)
    if r.returncode != 0:
        raise RuntimeError("cannot compile the C15 engine: " + r.stderr[-2000:])


def main(tier, seed, replay):
    t0 = time.time()
    quick = tier == "quick"
    work = tempfile.mkdtemp(prefix="verif-C15-")
    viol = []
    try:
        pin = build.get("pin")
        exe = os.path.join(work, "c15")
        _compile(pin, exe)
        env = dict(os.environ, LD_BIND_NOW="1")
        if replay:
            rp = json.load(open(replay))
            outs = []
            for i in range(2):
                r = subprocess.run([exe] + rp["args"], env=env, capture_output=True, text=True, timeout=3000)
                outs.append([l for l in r.stdout.splitlines() if l.startswith("VIOL")])
            print("\n".join(outs[0][:10]))
            if outs[0] != outs[1]:
                print("replay: NOT deterministic")
                return 2
            if outs[0]:
                print("VIOLATION property=C15 replay=%s" % replay)
                return 1
            print("replay: schedule passes")
            return 0
        confs = [(2, 2, False)] if quick else [(2, 3, False), (2, 2, True), (3, 2, False)]
        stats = {"harnesses": 0, "executions": 0, "scheduling_decisions": 0, "write_traps": 0, "max_points": 0, "capped": 0}
        per_conf = []
        NP = 16

        def run_part(args):
            T, PB, two, k = args
            a = ["--threads", str(T), "--pb", str(PB), "--part", str(k), str(NP)] + (["--two-ops"] if two else [])
            try:
                r = subprocess.run([exe] + a, env=env, capture_output=True, text=True, timeout=3000)
            except subprocess.TimeoutExpired:
                return a, None, "timeout"
            return a, r, None

        for T, PB, two in confs:
            cs = dict.fromkeys(stats, 0)
            with ThreadPoolExecutor(NP) as ex:
                for a, r, err in ex.map(run_part, [(T, PB, two, k) for k in range(NP)]):
                    if err or r is None:
                        viol.append({"space": "schedules", "kind": "hang", "msg": "exploration part %s did not finish (%s)" % (a, err), "case": " ".join(a), "args": a})
                        continue
                    done = [l for l in r.stdout.splitlines() if l.startswith("DONE")]
                    for l in r.stdout.splitlines():
                        if l.startswith("VIOL"):
                            m = re.search(r"op=(\S+)|plans (\[[^\]]*\]) (\[[^\]]*\])", l)
                            viol.append({"space": "schedules", "kind": l.split()[1], "msg": l[:600], "case": l[:300], "args": a})
                    if not done:
                        viol.append({"space": "schedules", "kind": "crash", "msg": "engine part %s exited with %s: %s" % (a, r.returncode, (r.stderr or r.stdout)[-400:]), "case": " ".join(a), "args": a})
                        continue
                    for kv in done[0].split()[1:]:
                        k_, v_ = kv.split("=")
                        if k_ in cs:
                            cs[k_] = max(cs[k_], int(v_)) if k_ == "max_points" else cs[k_] + int(v_)
            per_conf.append({"threads": T, "preemption_bound": PB, "two_ops_per_thread": two, **cs})
            for k_ in stats:
                stats[k_] = max(stats[k_], cs[k_]) if k_ == "max_points" else stats[k_] + cs[k_]
        # free-running ThreadSanitizer pass on the same bodies
        tsan_runs = 0
        tsan_reports = []
        try:
            ts = build.get("tsan")
            texe = os.path.join(work, "c15-tsan")
            _compile(ts, texe, tsan=True)
            tenv = dict(os.environ, TSAN_OPTIONS="halt_on_error=0 exitcode=0 report_signal_unsafe=0 history_size=4")

            def run_tsan(k):
                return subprocess.run([texe, "--free", "--threads", "2" if quick else "3", "--reps", "2" if quick else "6", "--part", str(k), "8"], env=tenv, capture_output=True, text=True, timeout=3000)
            with ThreadPoolExecutor(8) as ex:
                for r in ex.map(run_tsan, range(8)):
                    for l in r.stdout.splitlines():
                        if l.startswith("DONE"):
                            tsan_runs += int(re.search(r"runs=(\d+)", l).group(1))
                        if l.startswith("VIOL"):
                            viol.append({"space": "tsan-free-running", "kind": "free-running-result", "msg": l[:500], "case": l[:200], "args": ["--free"]})
                    reps = r.stderr.split("WARNING: ThreadSanitizer:")[1:]
                    for rep in reps:
                        if re.search(r"__gmp|mpn_|mpz_|mpf_|mpq_|mpir", rep):
                            tsan_reports.append(rep[:1500])
            seen = set()
            for rep in tsan_reports:
                key = re.sub(r"0x[0-9a-f]+|T\d+|tid=\d+", "", rep.split("\n")[0] + "".join(re.findall(r"#0 (\S+)", rep)[:2]))
                if key in seen:
                    continue
                seen.add(key)
                viol.append({"space": "tsan-free-running", "kind": "data-race", "msg": "ThreadSanitizer: " + rep[:900], "case": rep.split("\n")[0][:200], "args": ["--free"]})
        except Exception as e:
            viol.append({"space": "tsan-free-running", "kind": "engine-error", "msg": "cannot run the ThreadSanitizer pass: %r" % e, "case": "tsan", "args": []})
        # API sweep under the write monitor (separate process: needs LD_BIND_NOW for the ctypes-loaded library)
        sweep = None
        try:
            so = os.path.join(work, "sweep.json")
            senv = dict(os.environ, LD_BIND_NOW="1")
            r = subprocess.run([sys.executable, "-m", "mc.runpass", ID, tier, "pin", so, str(BUDGET[tier])], cwd=ROOT, env=senv, capture_output=True, text=True, timeout=BUDGET[tier] + 1800)
            if r.returncode != 0 or not os.path.exists(so):
                viol.append({"space": "api_sweep_write_monitor", "kind": "engine-error", "msg": "the api sweep did not run: exit %s %s" % (r.returncode, (r.stderr or "")[-600:]), "case": "sweep", "args": []})
            else:
                sweep = json.load(open(so))
                sweep["variant"] = "pin:api-sweep"
                if not sweep.get("extra", {}).get("monitor_selftest_traps"):
                    viol.append({"space": "api_sweep_write_monitor", "kind": "engine-error", "msg": "the write monitor's self test did not run", "case": "sweep", "args": []})
        except Exception as e:
            viol.append({"space": "api_sweep_write_monitor", "kind": "engine-error", "msg": "cannot run the api sweep: %r" % e, "case": "sweep", "args": []})
        results = [{"variant": "pin+tsan", "n": stats["executions"] + tsan_runs, "distinct": stats["executions"], "nfail": len(viol), "fails": viol[:50], "samples": [
            {"harness": "threads run [mul_fft] and [get_str] on the same sources", "schedule": "0 0 0 1 1 0 1 (thread chosen at each scheduling point; <=2 preemptions)"},
            {"configurations": per_conf}], "blocks": stats["harnesses"], "total_blocks": stats["harnesses"],
            "per_space": {"schedule_exploration": [stats["executions"], stats["harnesses"]], "tsan_free_running": [tsan_runs, 1]},
            "extra": dict(stats, tsan_runs=tsan_runs, tsan_reports=len(tsan_reports)), "errors": [], "exhaustive": stats["capped"] == 0 and not any(v["kind"] in ("hang", "crash", "engine-error") for v in viol),
            "wall_s": round(time.time() - t0, 1),
            "spaces": [{"name": "schedule_exploration", "blocks": stats["harnesses"], "doc": "every ordered pair of 40 menu operations x every schedule with <= PB preemptions; write monitor on static segment and shared sources"},
                       {"name": "tsan_free_running", "blocks": 1, "doc": "same bodies, free running, ThreadSanitizer build of the library"}]}]
        if sweep is not None:
            results.append(sweep)
        import mc.props.C15 as me
        return report.finish(me, ID, tier, seed, results, time.time() - t0,
                             extra_cov={"states": max(1, stats["executions"]), "transitions": max(1, stats["scheduling_decisions"]), "traces_validated_against_impl": stats["executions"],
                                        "write_traps_on_static_segment_or_shared_sources": stats["write_traps"], "preemption_bounds": per_conf})
    finally:
        shutil.rmtree(work, ignore_errors=True)
