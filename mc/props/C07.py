"""C07  GCD, extended GCD, LCM, modular inverse and Jacobi/Kronecker symbols."""
import math, os
from ctypes import c_void_p, c_long, c_ulong, c_int, c_uint64, byref
from .. import lib, alphabet as al, mpnops as mo, rt, optable as ot
from ..explore import Space

ID = "C07"
LEVEL = "exploration"
RULE = ("bounded-exhaustive enumeration: all ordered pairs over {0,+-EXH(L9)<=2 limbs} for every function of the family (with every alias "
        "pattern for gcd/gcdext/lcm/invert); constructed pairs a=g*x, b=g*y for every size pair in the shape set (consecutive Fibonacci = "
        "worst-case quotient sequence, dense, q*y+1, b|a, |a|=|b|, |b|=2g, powers of two) with sizes crossing HGCD/GCD_DC/GCDEXT_DC/"
        "MATRIX22_STRASSEN (pinned values from the tree's gmp-mparam.h) and densely under the run-time-threshold floor vector. Oracle: "
        "math.gcd, the manual's unique (s,t) definition, textbook Kronecker algorithm. distinct_nontrivial = distinct (function, "
        "configuration, size pair, family/sign class, result class) tuples.")
RULE = RULE + (" " + 'Later additions: HGCD_REDUCE regime (2x and 3x the threshold) with a certificate oracle and all-ones/zero bands in equal-length operands with a planted factor; common factors whose low limb alone is 1 or 3.')
ASSUMPTIONS = ["Python math.gcd / pow(x,-1,m) and the textbook Kronecker algorithm (self-tested in setup) are the reference model",
               "rop of a failed mpz_invert and moduli of absolute value <= 1 are outside the assertable domain"]
BUDGET = {"quick": 420, "thorough": 3300}
M, H = al.M, al.H
G = mo.G


def passes(tier):
    return ["pin", "rt"] if tier == "quick" else ["pin", "rt", "asan"]


def load(variant):
    if variant == "rt":
        rt.load()
    else:
        lib.load(variant)


_fibs = [0, 1]


def fib_bits(bits):
    """consecutive Fibonacci numbers (F_{k+1}, F_k) with F_{k+1} of exactly about `bits` bits"""
    while _fibs[-1].bit_length() < bits + 2:
        _fibs.append(_fibs[-1] + _fibs[-2])
    # binary search
    lo, hi = 2, len(_fibs) - 1
    while lo < hi:
        mid = (lo + hi) // 2
        if _fibs[mid].bit_length() < bits:
            lo = mid + 1
        else:
            hi = mid
    return _fibs[lo], _fibs[lo - 1]


def dense(n, salt=0):
    return al.PAT(n, salt)["dense"]


def pairs(n, m):
    """constructed positive (a,b,family) with a of ~n limbs and b of ~m limbs (m<=n)"""
    out = []
    gl = max(1, m // 3)
    # common factors: none, all ones, top+bottom bit, dense, 3*B^k, and multi-limb factors whose LOW limb alone is 1 (or 3): a test
    # of the form "low limb == 1" must not take them for a trivial gcd
    for gi, g in enumerate((1, al.ones(gl), (1 << (64 * gl - 1)) + 1, dense(gl) | 1, 3 << (64 * (gl - 1)),
                            (1 << (64 * gl)) + 1, (3 << 64) + 1 if m >= 4 else 1, ((dense(gl) | 1) << 64) + 1, (1 << (64 * gl)) + 3)):
        if gi >= 5 and (g == 1 or al.nl(g) >= m):
            continue
        gll = al.nl(g) if g > 1 else 0
        xl = 64 * (n - gll)
        yl = 64 * (m - gll)
        if yl <= 0 or xl <= 0:
            continue
        if n == m or n == m + 1:
            fx, fy = fib_bits(yl - 1)
            out.append((g * fx, g * fy, "fib%d" % gi))
        if gi < 2 or gi >= 5:
            x, y = dense(xl // 64, 1) | 1, dense(yl // 64, 2) | 1
            out.append((g * x, g * y, "dense%d" % gi))
            q = al.ones(max(1, (xl - yl) // 64)) if xl > yl else 1
            out.append((g * (q * y + 1), g * y, "qy+1_%d" % gi))
            out.append((g * q * y, g * y, "b|a_%d" % gi))
    b = dense(m, 3) | 1
    out.append((b, b, "equal"))
    out.append(((1 << (64 * n - 1)), b, "pow2,odd"))
    out.append((dense(n, 4) << 3, (dense(m, 5) | 1) << 67 if m > 2 else 24, "even,even"))
    out.append((al.ones(n), al.ones(m), "ones"))
    g2 = dense(max(1, m - 1), 6) | 1
    out.append((g2 * (dense(max(1, n - m + 1), 7) | 1), 2 * g2, "|b|=2g"))
    # long runs of all-ones / all-zero limbs in the upper, middle and lower third of either operand (carry/borrow chains in the
    # folding and matrix-application steps); no planted factor: the reference gcd decides
    if m >= 3:
        t = max(1, m // 3)
        for k, (lo_a, lo_b) in enumerate(((m - t - 1, m - t - 1), (t, m - t - 1), (m - t - 1, 0), (0, t))):
            band_b = al.ones(t) << (64 * lo_b)
            band_a = al.ones(t) << (64 * min(lo_a + (n - m), n - t))
            b_ = (dense(m, 20 + k) | band_b) | 1
            a_ = dense(n, 30 + k) | band_a
            out.append((a_, b_, "ones_band%d" % k))
            zb = (dense(m, 40 + k) & ~band_b) | 1 | (1 << (64 * m - 1))
            out.append((dense(n, 50 + k) & ~band_a | (1 << (64 * n - 1)), zb, "zero_band%d" % k))
    return out


def spaces(tier, variant, seed):
    P = c_void_p
    quick = tier == "quick"
    sp = []
    CFG = {}
    if variant == "rt":
        CFG["floor"] = rt.floor_vector()
        ships = rt.ship_vectors()
        if quick:
            ks = sorted(ships, key=lambda k: ships[k]["hgcd_threshold"])
            ships = {k: ships[k] for k in {ks[0], ks[-1]}}
        for k, v in ships.items():
            CFG["ship:" + k] = v
        for k, v in rt.dev1_vectors([n for n in rt.NAMES if "gcd" in n or "matrix22" in n]).items():
            CFG["dev1:" + k] = v
    else:
        CFG["pin"] = None
    BASECFG = "floor" if variant == "rt" else "pin"
    cur = {"cfg": None}

    def set_cfg(cfg):
        if cfg != cur["cfg"]:
            if variant == "rt":
                rt.set_vector(CFG[cfg])
            cur["cfg"] = cfg

    ZV = al.zvals(2, al.L9)
    SMALL_OPS = ["mpz_gcd", "mpz_gcdext", "mpz_lcm", "mpz_invert", "mpz_kronecker", "mpz_jacobi"]

    def sm_cases(blk):
        name, i = blk
        op = ot.OPS[name]
        a = ZV[i]
        np_ = len(op.alias_patterns())
        for b in ZV:
            for ai in range(np_):
                yield (name, a, b, ai, 0)
            if a == b:
                yield (name, a, b, 0, 1)

    def sm_one(case, R):
        name, a, b, ai, same = case
        set_cfg(BASECFG)
        op = ot.OPS[name]
        r = ot.run(op, (a, b), alias=op.alias_patterns()[ai], same_inputs=bool(same), R=R, junk=ai)
        if r is None:
            return None
        return (name, ai, same, al.sgn(a), al.sgn(b), al.nl(abs(a)), al.nl(abs(b)), a % 2, b % 2, tuple(al.sgn(x) for x in r[1]), r[2] if op.ret != "v" else None)

    sp.append(Space("small_pairs", [(k, i) for k in SMALL_OPS for i in range(len(ZV))], sm_cases, sm_one,
                    "gcd, gcdext (all 3 outputs aliased every way), lcm, invert, jacobi/kronecker: all ordered pairs of {0,+-EXH(L9)<=2 limbs}"))

    # gcdext with t == NULL, gcd_ui with rop NULL
    f_gcdext = lib.fn("mpz_gcdext", None, P, P, P, P, P)
    f_gcd_ui = lib.fn("mpz_gcd_ui", c_ulong, P, P, c_ulong)
    SI = [0, 1, -1, 2, -2, 3, -3, 4, 8, -8, 15, -15, (1 << 63) - 1, -(1 << 63), -(1 << 63) + 1, 1 << 32, (1 << 32) + 1, 6, -6, 1 << 62, 3 << 61, 5, 7, -7, 9, 255, 256]
    UI = [0, 1, 2, 3, 4, 8, 15, 6, 1 << 32, (1 << 32) + 1, H - 1, H, H + 1, M - 1, M, 1 << 62, 5, 7, 9, 12, 255, 256]
    ZK = al.zvals(2, al.L9) + [s * v for n in (3, 4, 7) for v in (al.ones(n), dense(n), (1 << (64 * n - 1)), dense(n) << 64, 1 << (64 * (n - 1))) for s in (1, -1)]
    pool = {}

    def zs():
        if not pool:
            pool["z"] = [lib.Z() for _ in range(5)]
        return pool["z"]

    def mix_cases(blk):
        kind, i = blk
        a = ZK[i]
        if kind == "null":
            for b in ZV:
                yield ("gcdext_tnull", a, b)
            for u in UI:
                yield ("gcd_ui_null", a, u)
                yield ("mpz_gcd_ui", a, u)
                yield ("mpz_lcm_ui", a, u)
        else:
            for s in SI:
                yield ("mpz_kronecker_si", a, s)
                yield ("mpz_si_kronecker", s, a)
            for u in UI:
                yield ("mpz_kronecker_ui", a, u)
                yield ("mpz_ui_kronecker", u, a)

    def mix_one(case, R):
        name, a, b = case
        set_cfg(BASECFG)
        if name == "gcdext_tnull":
            z = zs()
            z[0].set(a)
            z[1].set(b)
            z[2].set(5)
            z[3].set(7)
            f_gcdext(z[2].p, z[3].p, None, z[0].p, z[1].p)
            g, s, t = ot.gcdext_ref(a, b)
            if z[2].get() != g or z[3].get() != s:
                R.fail("mpz_gcdext", "t=NULL a=%x b=%x: got g=%x s=%x expected g=%x s=%x" % (a, b, z[2].get(), z[3].get(), g, s))
            if z[2].wf() or z[3].wf() or z[0].get() != a or z[1].get() != b:
                R.fail("mpz_gcdext", "t=NULL: ill-formed output or input modified")
            return (name, al.sgn(a), al.sgn(b), al.sgn(s))
        if name == "gcd_ui_null":
            z = zs()
            z[0].set(a)
            r = f_gcd_ui(None, z[0].p, b)
            e = ot.OPS["mpz_gcd_ui"].oracle(a, b)[1]
            if r != e or z[0].get() != a:
                R.fail("mpz_gcd_ui", "rop=NULL a=%x u=%x: returned %x expected %x" % (a, b, r, e))
            return (name, al.sgn(a), b == 0, e == 0)
        op = ot.OPS[name]
        r = None
        for ai, pat in enumerate(op.alias_patterns()):
            r = ot.run(op, (a, b), alias=pat, R=R)
        return (name, al.sgn(a), al.sgn(b), a % 2, b % 2, r[2] if r and op.ret != "v" else None)

    sp.append(Space("ui_si_variants", [(k, i) for k in ("null", "kron") for i in range(len(ZK))], mix_cases, mix_one,
                    "mpz_gcdext with t=NULL, mpz_gcd_ui (rop NULL and not; result not fitting), lcm_ui, kronecker_si/ui, si/ui_kronecker incl. LONG_MIN"))

    # ---- constructed pairs over a shape set ----
    def big_cases(blk):
        cfg, n, ms = blk
        for m in ms:
            for k, (a, b, fam) in enumerate(pairs(n, m)):
                yield (cfg, n, m, k)

    def big_one(case, R):
        cfg, n, m, k = case
        set_cfg(cfg)
        a, b, fam = pairs(n, m)[k]
        sa = -1 if (n + k) % 4 == 1 else 1
        sb = -1 if (m + k) % 4 >= 2 and (n + m) % 3 == 0 else 1
        a, b = sa * a, sb * b
        for name in ("mpz_gcd", "mpz_gcdext", "mpz_lcm", "mpz_invert", "mpz_kronecker"):
            if name == "mpz_lcm" and n + m > 300:
                continue
            op = ot.OPS[name]
            ot.run(op, (a, b), R=R, tag=name + ":" + fam)
            if name in ("mpz_gcd", "mpz_gcdext") and k % 3 == 0:
                ot.run(op, (b, a), R=R, tag=name + ":" + fam + ":swapped")
        return (cfg, n, m, k)

    def shape_blocks(cfg, N, dense_to, step):
        b = []
        for n in range(1, N + 1):
            if n <= dense_to:
                ms = list(range(1, n + 1))
            else:
                if n % step:
                    continue
                ms = sorted({n, n - 1, max(1, n // 2), max(1, n // 3), 1, 2, max(1, n - 7)})
            b.append((cfg, n, ms))
        return b

    if variant != "rt":
        th = rt.parse_mparam(os.path.join(lib.META["dir"], "gmp-mparam.h"))
        N = 40 if quick else 70
        blocks = shape_blocks("pin", N, N, 1)
        edges = sorted({th.get(k, 0) for k in ("hgcd_threshold", "hgcd_appr_threshold", "gcd_dc_threshold", "gcdext_dc_threshold", "matrix22_strassen_threshold")} - {0})
        if variant == "asan":
            edges = [e for e in edges if e < 200]
        for e in edges:
            for n in range(e - 1, e + 3):
                if n > N:
                    blocks.append(("pin", n, sorted({n, n - 1, max(1, n - 5), (2 * n) // 3, n // 2})))
            for n in (2 * e - 1, 2 * e, 2 * e + 1, 3 * e):
                if n > N and (n < 800 or not quick) and n < 1500:
                    blocks.append(("pin", n, sorted({n, n - 1, e, e + 1})))
        if not quick and variant != "asan":
            for n in range(N + 5, 1000, 37):
                blocks.append(("pin", n, sorted({n, n - 1, n // 2 + 1})))
        sp.append(Space("pin_constructed", blocks, big_cases, big_one,
                        "gcd/gcdext/lcm/invert/kronecker on constructed pairs: every (n>=m) up to %d limbs, and sizes around HGCD/GCD_DC/GCDEXT_DC/STRASSEN thresholds (%s)" % (N, edges)))
    else:
        N1 = 90 if quick else 160
        sp.append(Space("rt_floor_constructed", shape_blocks("floor", N1, 48 if quick else 70, 3), big_cases, big_one,
                        "under the floor vector (HGCD 30, GCD_DC 30, GCDEXT_DC 30, STRASSEN 2): every (n>=m) up to 48/70 limbs, then stepped to %d" % N1))
        ob = []
        for cfg, v in CFG.items():
            if cfg == "floor":
                continue
            es = sorted({v[k] for k in ("hgcd_threshold", "gcd_dc_threshold", "gcdext_dc_threshold", "matrix22_strassen_threshold")})
            if cfg.startswith("dev1:"):
                es = [int(cfg.split("=")[1])]
            for e in es:
                if e > 1200:
                    continue
                for n in sorted({e - 1, e, e + 1, e + 2, 2 * e, 2 * e + 1, 3 * e + 1}):
                    if 1 <= n < (800 if quick else 1500):
                        ob.append((cfg, n, sorted({n, max(1, n - 1), max(1, (2 * n) // 3), max(1, n // 2)})))
        sp.append(Space("rt_other_vectors", ob, big_cases, big_one, "shipped vectors and single-threshold deviations around their own gcd thresholds"))

    # ---- the largest regime (HGCD_REDUCE_THRESHOLD and above): certificate oracle g | a, g | b, a*s + b*t == g ----
    def hg_cases(blk):
        n, m, fam = blk
        yield (n, m, fam)

    def hg_one(case, R):
        n, m, fam = case
        set_cfg(BASECFG)
        a = dense(n, 61)
        b = dense(m, 62) | 1
        t3 = m // 3

        def band(v, nl_, lo, hi):
            """all-ones limbs [lo*nl_, hi*nl_) (fractions of the limb count), keeping the top two limbs"""
            l0, l1 = int(lo * nl_), min(int(hi * nl_), nl_ - 2)
            return v | (al.ones(l1 - l0) << (64 * l0))

        if fam == "ones_upper":
            b |= al.ones(t3) << (64 * (m - t3 - 2))
        elif fam == "ones_both":
            b |= al.ones(t3) << (64 * (m - t3 - 2))
            a |= al.ones(n // 3) << (64 * (n - n // 3 - 2))
        elif fam == "zeros_upper":
            b &= ~(al.ones(t3) << (64 * (m - t3 - 2)))
        elif fam == "planted":
            gpl = dense(n // 14, 63) | 1
            a, b = (dense(n - n // 14, 64) | 1) * gpl, (dense(m - n // 14, 65) | 1) * gpl
        elif fam.startswith("band:"):
            # band:<which>:<lo>:<hi>  -- the end-around folds of hgcd_matrix_apply carry only through such bands
            _, which, lo, hi = fam.split(":")
            if "a" in which:
                a = band(a, n, float(lo), float(hi))
            if "b" in which:
                b = band(b, m, float(lo), float(hi))
            if "s" in which and a > b:        # make the banded operand the smaller one of two equal-length operands
                a, b = b | 1, a
                if b % 2 == 0:
                    b += 1
            if "p" in which:                  # and a planted common factor (rounding down touches only the low limbs, the bands stay)
                gpl = dense(n // 14, 63) | 1
                a -= a % gpl
                b -= b % gpl
                if (b // gpl) % 2 == 0:
                    b -= gpl
        z = [lib.Z() for _ in range(5)]
        z[3].set(a)
        z[4].set(b)
        f_gcdext(z[0].p, z[1].p, z[2].p, z[3].p, z[4].p)
        g, s_, t_ = z[0].get(), z[1].get(), z[2].get()
        if g <= 0 or a % g or b % g or a * s_ + b * t_ != g:
            R.fail("mpz_gcdext", "%d x %d limbs (%s): certificate g|a, g|b, a*s+b*t=g fails" % (n, m, fam))
        elif not (2 * g * abs(s_) < b or b == 2 * g or g == b) or not (2 * g * abs(t_) < a or a == 2 * g):
            R.fail("mpz_gcdext", "%d x %d limbs (%s): cofactor bounds violated" % (n, m, fam))
        f_gcd = lib.fn("mpz_gcd", None, c_void_p, c_void_p, c_void_p)
        f_gcd(z[1].p, z[3].p, z[4].p)
        if z[1].get() != g:
            R.fail("mpz_gcd", "%d x %d limbs (%s): differs from the certified gcd" % (n, m, fam))
        if z[1].get() != math.gcd(a, b):
            R.fail("mpz_gcd", "%d x %d limbs (%s): differs from the reference gcd" % (n, m, fam))
        if z[3].get() != a or z[4].get() != b:
            R.fail("mpz_gcd", "input modified")
        return (n, m, fam, g == 1)

    if variant != "rt" and variant != "asan":
        th_ = rt.parse_mparam(os.path.join(lib.META["dir"], "gmp-mparam.h")).get("hgcd_reduce_threshold", 6852)
        big_ns = [(3 * th_ + 60, 3 * th_ + 50), (2 * th_ + 100, 2 * th_ + 90)] if quick else [(3 * th_ + 60, 3 * th_ + 50), (2 * th_ + 100, 2 * th_ + 90), (4 * th_, 3 * th_ + 7), (3 * th_ + 444, 2 * th_)]
        if th_ <= 8000:
            hb = [(n, m, fam) for (n, m) in big_ns for fam in ("dense", "ones_upper", "ones_both", "zeros_upper", "planted")]
            eq_ns = [3 * th_ + 60, 2 * th_ + 100] + ([] if quick else [4 * th_ + 3, 3 * th_ + 700])
            for n in eq_ns:
                for which in ("b", "a", "ab", "bs", "abs", "bp", "bsp", "abp"):
                    for lo, hi in ((0.667, 1.0), (0.5, 1.0), (0.6, 0.9), (0.70, 0.95), (0.4, 0.8)):
                        hb.append((n, n, "band:%s:%s:%s" % (which, lo, hi)))
            sp.append(Space("pin_hgcd_reduce_regime", hb, hg_cases, hg_one,
                            "mpz_gcdext / mpz_gcd on operands of 2x and 3x HGCD_REDUCE_THRESHOLD limbs (dense, long all-ones / all-zero bands in the upper third, planted common factor; equal-length operands with all-ones bands over 5 limb ranges of the upper half in a, b, both, and in the smaller operand): certificate oracle"))

    # ---- mpn level ----
    f_ngcd = lib.fn("mpn_gcd", c_long, P, P, c_long, P, c_long)
    f_ngcd1 = lib.fn("mpn_gcd_1", c_uint64, P, c_long, c_uint64)
    f_ngcdext = lib.fn("mpn_gcdext", c_long, P, P, P, P, c_long, P, c_long)
    _A = {}

    def arena(n):
        if "a" not in _A or _A["a"].nl < n:
            _A["a"] = mo.Arena(max(n, 8192))
        return _A["a"]

    def mn_cases(blk):
        cfg, n, ms = blk
        for m in ms:
            for k in range(len(pairs(n, m))):
                yield (cfg, n, m, k)

    def mn_one(case, R):
        cfg, n, m, k = case
        set_cfg(cfg)
        a, b, fam = pairs(n, m)[k]
        if a < b:
            a, b = b, a
        if b == 0:
            return None
        g = math.gcd(a, b)
        un, vn = al.nl(a), al.nl(b)
        ou = G
        ov = ou + un + 1 + G
        og = ov + vn + 1 + G
        os_ = og + un + 1 + G
        end = os_ + un + 1 + G
        A = arena(end)
        # mpn_gcdext: U >= V > 0
        A.reset(end)
        A.put(ou, a, un)
        A.put(ov, b, vn)
        sn = c_long(0)
        gn = f_ngcdext(A.addr(og), A.addr(os_), byref(sn), A.addr(ou), un, A.addr(ov), vn)
        if not (0 < gn <= un + 1 and abs(sn.value) <= un + 1):
            R.fail("mpn_gcdext", "%s n=%d m=%d: sizes gn=%d sn=%d out of range" % (fam, un, vn, gn, sn.value))
        else:
            gg = A.get(og, gn)
            s = A.get(os_, abs(sn.value)) if sn.value else 0
            if sn.value < 0:
                s = -s
            ok = gg == g and (g - a * s) % b == 0
            if ok:
                okb = (s == 1) or (2 * g * abs(s) < b)
                ok0 = (s == 0) == (a % b == 0)
                if not okb or not ok0:
                    R.fail("mpn_gcdext", "%s n=%d m=%d: cofactor S=%x violates the documented bound/zero rule" % (fam, un, vn, s))
            else:
                R.fail("mpn_gcdext", "%s n=%d m=%d: wrong gcd or cofactor" % (fam, un, vn))
            if not A.untouched(end, [(ou, un + 1), (ov, vn + 1), (og, un + 1), (os_, un + 1)]):
                R.fail("mpn_gcdext", "wrote outside the documented areas")
        # mpn_gcd: s1 >= s2 in bits, s2 odd, both top limbs non-zero
        if b % 2:
            A.reset(end)
            A.put(ou, a, un)
            A.put(ov, b, vn)
            gn = f_ngcd(A.addr(og), A.addr(ou), un, A.addr(ov), vn)
            if not (0 < gn <= vn) or A.get(og, gn) != g:
                R.fail("mpn_gcd", "%s n=%d m=%d: wrong gcd (gn=%d)" % (fam, un, vn, gn))
            if not A.untouched(end, [(ou, un), (ov, vn), (og, vn)]):
                R.fail("mpn_gcd", "wrote outside the documented areas")
        # mpn_gcd_1
        l = (b & M) or 1
        A.reset(end)
        A.put(ou, a, un)
        r = f_ngcd1(A.addr(ou), un, l)
        if r != math.gcd(a, l) or A.get(ou, un) != a:
            R.fail("mpn_gcd_1", "n=%d limb=%x: got %x expected %x" % (un, l, r, math.gcd(a, l)))
        return (cfg, un, vn, k)

    NN = 36 if quick else 64
    if variant == "asan":
        NN = 24
    sp.append(Space("mpn_gcd_gcdext", shape_blocks(BASECFG, NN, NN, 1), mn_cases, mn_one,
                    "mpn_gcdext (cofactor bound and S=0 rule), mpn_gcd, mpn_gcd_1 on the constructed pairs, every (n>=m) up to %d" % NN))
    return sp
