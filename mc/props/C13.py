"""C13  Float results are accurate to the destination precision, exact if representable."""
import math, itertools
from fractions import Fraction
from ctypes import c_void_p, c_long, c_ulong, c_int, c_double, c_char_p, c_size_t, byref, addressof, string_at, create_string_buffer
from .. import lib, alphabet as al
from ..explore import Space

ID = "C13"
LEVEL = "exploration"
RULE = ("bounded-exhaustive enumeration: destination precision in {64,128(,192,256)} bits x operand mantissas = every limb vector over {0,1,2,H,B-1} "
        "with non-zero top limb up to prec+1 limbs (and longer ones held in wider operands) x exponent differences covering no/partial/full "
        "overlap x signs x alias modes, through add, sub, mul, div, sqrt, the _ui forms, ui_sub, ui_div, set_q, set_z, set_d, set_str; floor/ceil/"
        "trunc/neg/abs/mul_2exp/div_2exp/integer_p for exactness on the stored value; mpf_get_str for 1..20 and 0 digits in bases 2,10,16,62; "
        "near-cancellation pairs; plus a breadth-first exploration of precision histories {init2, set_prec, set_prec_raw..restore, op} to "
        "depth 3 with state (allocated precision, current precision, value). Oracle: Fraction; |got-exact| < 2^(2-p)|exact| with p = "
        "mpf_get_prec(rop), got == exact when operands and exact value fit p bits, format rules after every call. distinct_nontrivial = "
        "distinct (function, precisions, operand size/exponent-difference/sign classes, exact-or-rounded) tuples.")
RULE = RULE + (" " + 'Later additions: mpf_set_str mantissa/point/exponent grid; 21 operations on variables whose precision was lowered by mpf_set_prec_raw (all alias modes); mpf_get_str with as many digits as the precision carries over the whole exponent range (last-digit accuracy).')
ASSUMPTIONS = ["fractions.Fraction is the reference model", "the accuracy bound is the property's (about one limb of slack): smaller losses on inexact results are within the property"]
BUDGET = {"quick": 420, "thorough": 3000}
M, H, B = al.M, al.H, al.B
FA = (0, 1, 2, H, M)


def passes(tier):
    return ["pin"] if tier == "quick" else ["pin", "asan"]


def fits_bits(v, p):
    """does the exact value v (Fraction) have a binary mantissa of at most p bits"""
    if v == 0:
        return True
    d = v.denominator
    if d & (d - 1):
        return False
    n = abs(v.numerator)
    n >>= (n & -n).bit_length() - 1
    return n.bit_length() <= p


def mants(nl, A=FA):
    """every nl-limb mantissa over A with non-zero top AND non-zero bottom limb variants (bottom zero allowed too)"""
    for t in itertools.product(A, repeat=nl):
        if t[-1] == 0:
            continue
        v = 0
        for x in reversed(t):
            v = (v << 64) | x
        yield v


def spaces(tier, variant, seed):
    P = c_void_p
    quick = tier == "quick"
    sp = []
    f3 = {k: lib.fn("mpf_" + k, None, P, P, P) for k in ("add", "sub", "mul", "div")}
    fui = {k: lib.fn("mpf_" + k, None, P, P, c_ulong) for k in ("add_ui", "sub_ui", "mul_ui", "div_ui", "mul_2exp", "div_2exp", "pow_ui")}
    fuif = {k: lib.fn("mpf_" + k, None, P, c_ulong, P) for k in ("ui_sub", "ui_div")}
    f2 = {k: lib.fn("mpf_" + k, None, P, P) for k in ("sqrt", "floor", "ceil", "trunc", "neg", "abs", "set")}
    f_sqrt_ui = lib.fn("mpf_sqrt_ui", None, P, c_ulong)
    f_get_prec = lib.fn("mpf_get_prec", c_ulong, P)
    f_set_prec = lib.fn("mpf_set_prec", None, P, c_ulong)
    f_set_prec_raw = lib.fn("mpf_set_prec_raw", None, P, c_ulong)
    f_set_q = lib.fn("mpf_set_q", None, P, P)
    f_set_z = lib.fn("mpf_set_z", None, P, P)
    f_set_d = lib.fn("mpf_set_d", None, P, c_double)
    f_set_ui = lib.fn("mpf_set_ui", None, P, c_ulong)
    f_set_si = lib.fn("mpf_set_si", None, P, c_long)
    f_set_str = lib.fn("mpf_set_str", c_int, P, c_char_p, c_int)
    f_get_str = lib.fn("mpf_get_str", c_void_p, c_void_p, c_void_p, c_int, c_size_t, P)
    f_integer_p = lib.fn("mpf_integer_p", c_int, P)
    S = lib.S
    pool = {}
    PRECS = (64, 128) if quick else (64, 128, 192, 256)
    if variant == "asan":
        PRECS = (64,)

    def env():
        if not pool:
            pool["dst"] = {p: lib.F(p) for p in (64, 128, 192, 256, 320)}
            pool["a"] = {p: lib.F(p) for p in (64, 128, 192, 256, 320, 1024)}
            pool["b"] = {p: lib.F(p) for p in (64, 128, 192, 256, 320, 1024)}
            pool["q"] = lib.Q()
            pool["z"] = lib.Z()
            pool["buf"] = create_string_buffer(4096)
        return pool

    def val(mant, exp, neg):
        """value of mantissa limbs `mant` with limb exponent exp"""
        n = al.nl(mant)
        e = 64 * (exp - n)
        v = Fraction(mant << e) if e >= 0 else Fraction(mant, 1 << -e)
        return -v if neg else v

    def put(slot, p_store, mant, exp, neg):
        f = env()[slot][p_store]
        f.set_raw(mant, exp, neg)
        return f

    def store_prec(mant):
        n = al.nl(mant)
        for p in (64, 128, 192, 256, 320, 1024):
            if n <= (p + 127) // 64 + 1 - 0:
                if n <= ((p + 127) // 64) + 1:
                    return p
        return 1024

    def check(R, name, r, exact, p_bits, operands_fit, what):
        m = r.wf()
        if m:
            R.fail(name, "%s: result violates the mpf format: %s" % (what, m))
            return "illformed"
        got = r.get()
        if exact == 0:
            if got != 0:
                R.fail(name, "%s: exact result is 0, got %s" % (what, float(got)))
            return "zero"
        if operands_fit and fits_bits(exact, p_bits):
            if got != exact:
                R.fail(name, "%s: exact value fits %d bits but result differs (rel err 2^%.1f)" % (what, p_bits, math.log2(abs((got - exact) / exact)) if got != exact else 0))
            return "exact"
        err = abs(got - exact)
        if err * (1 << (p_bits - 2)) >= abs(exact):
            R.fail(name, "%s: error %s exceeds 2^(2-%d) relative (rel err about 2^%.1f)" % (what, "", p_bits, math.log2(err / abs(exact)) if err else 0))
        return "rounded"

    # ---------------- binary ops ----------------
    def ar_blocks():
        b = []
        for p in PRECS:
            pl = (p + 127) // 64          # prec in limbs
            maxl = pl + 1
            for op in ("add", "sub", "mul", "div"):
                for na in range(1, maxl + 2):
                    if na > 4 and quick:
                        continue
                    b.append((p, op, na))
        return b

    def ar_cases(blk):
        p, op, na = blk
        pl = (p + 127) // 64
        maxl = pl + 1
        A_full = FA if na <= 3 else (0, 1, M)
        for ma in mants(na, A_full):
            for nb in range(1, maxl + 2):
                if nb > 4 and quick:
                    continue
                A_b = FA if (nb <= 2 and na <= 3) else ((0, 1, M) if nb <= 3 else (0, M))
                for mb in mants(nb, A_b):
                    if op in ("add", "sub"):
                        eds = range(-(pl + 2), pl + 3)
                    else:
                        eds = (0, 3)
                    for ed in eds:
                        for sg in ((0, 1, 2, 3) if op in ("add", "sub") else (0, 1)):
                            yield (p, op, ma, mb, ed, sg, 0)
                    if (ma ^ mb) & 3 == 1:
                        yield (p, op, ma, mb, 1, 2, 1)
                        yield (p, op, ma, mb, -1, 1, 2)

    def ar_one(case, R):
        p, op, ma, mb, ed, sg, mode = case
        e = env()
        na, nb = al.nl(ma), al.nl(mb)
        ea = 5
        eb = ea - ed
        fa = put("a", store_prec(ma), ma, ea, sg & 1)
        fb = put("b", store_prec(mb), mb, eb, sg & 2)
        va, vb = val(ma, ea, sg & 1), val(mb, eb, sg & 2)
        if op == "div" and vb == 0:
            return None
        ex = {"add": va + vb, "sub": va - vb, "mul": va * vb, "div": (va / vb) if vb else 0}[op]
        if mode == 0:
            r = e["dst"][p]
            r.set_raw(M, 9, True)
            f3[op](r.p, fa.p, fb.p)
        elif mode == 1:
            # destination is operand a (only when a was stored at the destination precision)
            if store_prec(ma) != p:
                return None
            r = fa
            f3[op](r.p, fa.p, fb.p)
        else:
            if store_prec(mb) != p:
                return None
            r = fb
            f3[op](r.p, fa.p, fb.p)
        pb = f_get_prec(r.p)
        if pb < p:
            R.fail("mpf_get_prec", "precision %d below the requested %d" % (pb, p))
        cls = check(R, "mpf_" + op, r, ex, pb, fits_bits(va, pb) and fits_bits(vb, pb), "%s(%s limbs e%d %s, %s limbs e%d %s) prec %d mode %d" % (
            op, hex(ma), ea, "-" if sg & 1 else "+", hex(mb), eb, "-" if sg & 2 else "+", p, mode))
        if mode != 1 and fa.get() != va:
            R.fail("mpf_" + op, "operand a modified")
        if mode != 2 and fb.get() != vb:
            R.fail("mpf_" + op, "operand b modified")
        return (p, op, na, nb, max(-9, min(9, ed)), sg, mode, cls)

    sp.append(Space("mpf_add_sub_mul_div", ar_blocks(), ar_cases, ar_one,
                    "mpf_add/sub/mul/div: destination precision x mantissa pairs (up to prec+2 limbs, wider operands held in wider variables) x exponent differences x signs x (separate, r==a, r==b)"))

    # ---------------- near-cancellation ----------------
    def nc_cases(blk):
        p = blk
        pl = (p + 127) // 64
        for n in range(1, pl + 2):
            for x in (1, H, M, 2):
                hi = x << (64 * (n - 1))
                for lowa in (0, 1, al.ones(n - 1) if n > 1 else 0):
                    for k in range(0, pl + 3):
                        # a = x*B^k + small ; b = x*B^k - small'  (as mantissas of n+k limbs is too long: use exponent offset)
                        for small in (1, M, H):
                            yield (p, hi | lowa, n, small, k)

    def nc_one(case, R):
        p, ma, n, small, k = case
        e = env()
        pl = (p + 127) // 64
        # a = ma (n limbs, exp 6), b = ma - small*B^-k  built exactly as a Fraction and stored in a wide variable
        va = val(ma, 6, False)
        vb = va - Fraction(small, B ** k) / B ** max(0, n - 6 + 0)
        if vb <= 0:
            return None
        fa = put("a", store_prec(ma), ma, 6, False)
        fb = e["b"][1024]
        fb.set_frac(vb)
        out = []
        for op, ex in (("sub", va - vb), ("add", va + vb), ("sub_rev", vb - va)):
            r = e["dst"][p]
            r.set_raw(1, 1, False)
            if op == "sub_rev":
                f3["sub"](r.p, fb.p, fa.p)
            else:
                f3[op](r.p, fa.p, fb.p)
            pb = f_get_prec(r.p)
            out.append(check(R, "mpf_" + op[:3], r, ex, pb, fits_bits(va, pb) and fits_bits(vb, pb), "near-cancellation %s n=%d k=%d prec %d" % (op, n, k, p)))
        return (p, n, k, small == 1, tuple(out))

    sp.append(Space("mpf_near_cancellation", list(PRECS), nc_cases, nc_one, "a - b, b - a, a + b with b = a - small*B^-k: cancellation of 0..prec+2 leading limbs"))

    # ---------------- unary / _ui ----------------
    UL = [0, 1, 2, 3, 10, 1 << 32, H - 1, H, H + 1, M - 1, M]

    def un_cases(blk):
        p, na = blk
        pl = (p + 127) // 64
        for ma in mants(na, FA if na <= 3 else (0, 1, M)):
            for ea in (-3, 0, 1, 2, na - 1, na, na + 1, 7):
                for neg in (0, 1):
                    yield (p, ma, ea, neg)

    def un_one(case, R):
        p, ma, ea, neg = case
        e = env()
        na = al.nl(ma)
        va = val(ma, ea, neg)
        sp_ = store_prec(ma)
        sig = []
        what = "(%s e%d %s) prec %d" % (hex(ma), ea, "-" if neg else "+", p)

        def dst():
            r = e["dst"][p]
            r.set_raw(M - 1, -2, True)
            return r
        fa = put("a", sp_, ma, ea, neg)
        pbd = f_get_prec(e["dst"][p].p)
        afit = fits_bits(va, pbd)
        for u in UL:
            for op, ex in (("add_ui", va + u), ("sub_ui", va - u), ("mul_ui", va * u), ("div_ui", va / u if u else None)):
                if ex is None:
                    continue
                r = dst()
                fui[op](r.p, fa.p, u)
                sig.append(check(R, "mpf_" + op, r, ex, pbd, afit, op + what + " u=%d" % u))
            r = dst()
            fuif["ui_sub"](r.p, u, fa.p)
            sig.append(check(R, "mpf_ui_sub", r, u - va, pbd, afit, "ui_sub u=%d " % u + what))
            if va != 0:
                r = dst()
                fuif["ui_div"](r.p, u, fa.p)
                sig.append(check(R, "mpf_ui_div", r, u / va, pbd, afit, "ui_div u=%d " % u + what))
        if fa.get() != va:
            R.fail("mpf_*_ui", "operand modified")
        # in place forms
        if sp_ == p:
            for op, u, ex in (("add_ui", 1, va + 1), ("sub_ui", M, va - M), ("mul_ui", 3, va * 3), ("div_ui", 3, va / 3)):
                fa = put("a", sp_, ma, ea, neg)
                fui[op](fa.p, fa.p, u)
                check(R, "mpf_" + op, fa, ex, f_get_prec(fa.p), afit, "in place " + op + what)
            fa = put("a", sp_, ma, ea, neg)
            fuif["ui_sub"](fa.p, 5, fa.p)
            check(R, "mpf_ui_sub", fa, 5 - va, f_get_prec(fa.p), afit, "in place ui_sub" + what)
            fa = put("a", sp_, ma, ea, neg)
        if not neg:
            r = dst()
            f2["sqrt"](r.p, fa.p)
            m = r.wf()
            if m:
                R.fail("mpf_sqrt", "sqrt%s: format: %s" % (what, m))
            else:
                g = r.get()
                # exact root is irrational in general: bound |g^2 - va| relative to va: |g - s| < 2^(2-p) s  =>  |g^2 - va| < ~2^(3-p) va
                isq = False
                if va.denominator & (va.denominator - 1) == 0:
                    sh = va.denominator.bit_length() - 1
                    num = va.numerator << (sh & 1)
                    rt = math.isqrt(num)
                    if rt * rt == num:
                        isq = True
                        exs = Fraction(rt, 1 << ((sh + (sh & 1)) // 2))
                        sig.append(check(R, "mpf_sqrt", r, exs, pbd, afit, "sqrt" + what))
                if not isq and va:
                    lo = g * (1 - Fraction(1, 1 << (pbd - 2)))
                    hi = g * (1 + Fraction(1, 1 << (pbd - 2)))
                    if not (lo * lo < va * (1 + Fraction(1, 1 << (pbd - 3))) and hi * hi > va * (1 - Fraction(1, 1 << (pbd - 3)))) or g < 0:
                        R.fail("mpf_sqrt", "sqrt%s: result outside the error bound" % what)
                    sig.append("rounded")
        # exact functions on the stored value (same precision as the operand so that the result always fits)
        if sp_ == p:
            for op, ex in (("floor", Fraction(math.floor(va))), ("ceil", Fraction(math.ceil(va))), ("trunc", Fraction(math.trunc(va))), ("neg", -va), ("abs", abs(va)), ("set", va)):
                r = e["b"][p]
                r.set_raw(3, 1, False)
                f2[op](r.p, fa.p)
                if r.wf() or r.get() != ex:
                    R.fail("mpf_" + op, "%s%s: got %s expected %s (%s)" % (op, what, float(r.get()), float(ex), r.wf()))
                fa2 = put("b", p, ma, ea, neg)
                f2[op](fa2.p, fa2.p)
                if fa2.wf() or fa2.get() != ex:
                    R.fail("mpf_" + op, "in place %s%s" % (op, what))
            r = f_integer_p(fa.p)
            if bool(r) != (va.denominator == 1):
                R.fail("mpf_integer_p", "%s: %d" % (what, r))
            if na <= (p + 127) // 64:
                for sh in (0, 1, 63, 64, 65, 127, 128, 200):
                    for op, ex in (("mul_2exp", va * (1 << sh)), ("div_2exp", va / (1 << sh))):
                        r = e["b"][p]
                        r.set_raw(3, 1, False)
                        fui[op](r.p, fa.p, sh)
                        if r.wf() or r.get() != ex:
                            R.fail("mpf_" + op, "%s%s by %d: got %s (%s)" % (op, what, sh, float(r.get()), r.wf()))
                        fa2 = put("b", p, ma, ea, neg)
                        fui[op](fa2.p, fa2.p, sh)
                        if fa2.wf() or fa2.get() != ex:
                            R.fail("mpf_" + op, "in place %s%s by %d" % (op, what, sh))
        return (p, na, ea, neg, tuple(sorted(set(sig))))

    ub = []
    for p in PRECS:
        for na in range(1, (p + 127) // 64 + 3):
            if na > 4 and quick:
                continue
            ub.append((p, na))
    sp.append(Space("mpf_unary_ui", ub, un_cases, un_one,
                    "add_ui/sub_ui/mul_ui/div_ui/ui_sub/ui_div (11 limb values, also in place), sqrt, floor/ceil/trunc/neg/abs/set, integer_p, mul_2exp/div_2exp on every mantissa x exponent x sign"))

    def su_cases(blk):
        p = blk
        for u in list(range(0, 70)) + UL + [u * u for u in (1 << 16, (1 << 32) - 1, 1 << 31, 12345)] + [(1 << 62), (1 << 62) + 1]:
            yield (p, u)

    def su_one(case, R):
        p, u = case
        e = env()
        r = e["dst"][p]
        r.set_raw(7, 3, True)
        f_sqrt_ui(r.p, u)
        pb = f_get_prec(r.p)
        rt = math.isqrt(u)
        if rt * rt == u:
            return (p, check(R, "mpf_sqrt_ui", r, Fraction(rt), pb, True, "sqrt_ui(%d)" % u))
        if r.wf():
            R.fail("mpf_sqrt_ui", "format: " + r.wf())
        g = r.get()
        lo, hi = g * (1 - Fraction(1, 1 << (pb - 2))), g * (1 + Fraction(1, 1 << (pb - 2)))
        if not (lo * lo < u and hi * hi > u):
            R.fail("mpf_sqrt_ui", "sqrt_ui(%d) outside the error bound" % u)
        return (p, "rounded")

    sp.append(Space("mpf_sqrt_ui", list(PRECS), su_cases, su_one, "mpf_sqrt_ui on 0..69, limb alphabet and large squares"))

    # ---------------- conversions into mpf ----------------
    from .C11 import int_values, trunc_double
    IV = [v for v in int_values("quick") if abs(v).bit_length() <= 1100]
    if variant == "asan":
        IV = IV[::5]
    QS = sorted({Fraction(n, d) for n in (0, 1, -1, 3, -7, M, -(B + 1), (1 << 127) + 1, 10 ** 30) for d in (1, 2, 3, 7, M, B, B + 1, (1 << 127) - 1, 10 ** 19, 1 << 200)})
    DV = sorted({trunc_double(v) for v in IV if trunc_double(v) is not None and not math.isinf(trunc_double(v))} | {0.5, -0.75, 1e-300, 5e-324, -2.2250738585072014e-308, 1.7976931348623157e308, 0.1})

    def cv_cases(blk):
        p, kind = blk
        if kind == "z":
            for v in IV:
                yield (p, "z", v, 0)
        elif kind == "q":
            for q in QS:
                yield (p, "q", q.numerator, q.denominator)
        elif kind == "d":
            for d in DV:
                yield (p, "d", d, 0)
        else:
            for v in IV:
                if 0 <= v <= M:
                    yield (p, "ui", v, 0)
                if -(1 << 63) <= v < (1 << 63):
                    yield (p, "si", v, 0)

    def cv_one(case, R):
        p, kind, a, b = case
        e = env()
        r = e["dst"][p]
        r.set_raw(M, 4, True)
        pb = f_get_prec(r.p)
        if kind == "z":
            e["z"].set(a)
            f_set_z(r.p, e["z"].p)
            return (p, kind, check(R, "mpf_set_z", r, Fraction(a), pb, True, "set_z(%x)" % a))
        if kind == "q":
            e["q"].set(a, b)
            f_set_q(r.p, e["q"].p)
            return (p, kind, check(R, "mpf_set_q", r, Fraction(a, b), pb, True, "set_q(%x/%x)" % (a, b)))
        if kind == "d":
            f_set_d(r.p, a)
            return (p, kind, check(R, "mpf_set_d", r, Fraction(a), pb, True, "set_d(%r)" % a))
        if kind == "ui":
            f_set_ui(r.p, a)
        else:
            f_set_si(r.p, a)
        return (p, kind, check(R, "mpf_set_" + kind, r, Fraction(a), pb, True, "set_%s(%d)" % (kind, a)))

    sp.append(Space("mpf_set_from", [(p, k) for p in PRECS for k in ("z", "q", "d", "ui")], cv_cases, cv_one, "mpf_set_z, set_q, set_d, set_ui, set_si: accuracy bound, exact when the value fits"))

    STRS = []
    for mant in ("0", "1", "-1", "1.5", "0.001", "123456789012345678901234567890", "-0.000000000000000000001", "3.14159265358979323846264338327950288", "1e10", "1E-10", "-2.5e+3", "1@5", ".5", "5.",
                 "0.1", "99999999999999999999999999999999999999999999", "1e100", "1e-100", "-12345.678e-2", "000123.4500"):
        STRS.append((mant, 10))
    for mant in ("ff.8", "-1.fffffffffffffffffffffffff", "0.0000000000000001", "abcdef@3", "ABCDEF@-3", "1@10"):
        STRS.append((mant, 16))
    for mant in ("1.1", "-101.0101", "1e101", "0.000000000000000000000000000000000000000000000000000000000000000001"):
        STRS.append((mant, 2))
    STRS += [("zz.z", 36), ("Zz.z", 62), ("1e2", -10), ("1@2", -16)]

    def str_value(s, base):
        ab = abs(base)
        from .C06 import digit_value
        neg = s.startswith("-")
        t = s[1:] if neg else s
        expc = "@"
        if ab <= 10 and ("e" in t.lower()) and "@" not in t:
            t = t.replace("E", "e")
            expc = "e"
        if expc in t:
            mpart, epart = t.split(expc)
            ex = int(epart, ab) if base > 0 else int(epart, 10)   # exponent is in the base, decimal when base < 0
        else:
            mpart, ex = t, 0
        if "." in mpart:
            ip, fp = mpart.split(".")
        else:
            ip, fp = mpart, ""
        v = Fraction(0)
        for ch in ip:
            v = v * ab + digit_value(ch, ab)
        sc = Fraction(1)
        for ch in fp:
            sc /= ab
            v += digit_value(ch, ab) * sc
        v *= Fraction(ab) ** ex
        return -v if neg else v

    def st_cases(blk):
        p = blk
        for i in range(len(STRS)):
            yield (p, i)

    def st_one(case, R):
        p, i = case
        s, base = STRS[i]
        e = env()
        r = e["dst"][p]
        r.set_raw(5, 2, False)
        rc = f_set_str(r.p, s.encode(), base)
        if rc != 0:
            R.fail("mpf_set_str", "%r base %d rejected" % (s, base))
            return None
        ex = str_value(s, base)
        return (p, i, check(R, "mpf_set_str", r, ex, f_get_prec(r.p), True, "set_str(%r,%d)" % (s, base)))

    sp.append(Space("mpf_set_str", list(PRECS), st_cases, st_one, "mpf_set_str on %d strings (bases 2,10,16,36,62,-10,-16; point, exponent forms)" % len(STRS)))

    # systematic mantissa length x point position x exponent grid (mantissas longer than the destination holds, on both sides of every limb count)
    SB = {10: "0123456789", 16: "0123456789abcdef", 2: "01", 36: "0123456789abcdefghijklmnopqrstuvwxyz", 7: "0123456"}
    MLEN = [1, 2, 9, 19, 20, 21, 38, 39, 40, 57, 58, 59, 60, 77, 78, 80, 100, 130, 200]
    EXPS = [None, 0, 1, 2, 5, 19, 20, 30, 64, 100, -1, -2, -5, -20, -30, -64, -100]

    def sg_cases(blk):
        p, base = blk
        for ml in MLEN:
            for pp in [None] + sorted({0, 1, ml // 2, max(ml - 1, 0), ml}):
                for ex in EXPS:
                    for pat in (0, 1, 2):
                        yield (p, base, ml, pp, ex, pat)

    def sg_one(case, R):
        p, base, ml, pp, ex, pat = case
        e = env()
        dg = SB[base]
        if pat == 0:
            ds = [dg[-1]] * ml
        elif pat == 1:
            ds = [dg[1]] + [dg[0]] * (ml - 2) + ([dg[1]] if ml > 1 else [])
        else:
            ds = [dg[1 + (i * 7 + 3) % (len(dg) - 1)] for i in range(ml)]
        mant = "".join(ds)
        if pp is not None:
            mant = mant[:pp] + "." + mant[pp:]
        s_ = ("-" if (ml + (ex or 0)) % 3 == 0 else "") + mant
        if ex is not None:
            # the exponent is written in decimal and read in decimal: negative base argument
            s_ += "@" + str(ex)
        r = e["dst"][p]
        r.set_raw(5, 2, False)
        rc = f_set_str(r.p, s_.encode(), -base)
        if rc != 0:
            R.fail("mpf_set_str", "%r base %d rejected" % (s_[:60], -base))
            return None
        val = str_value(s_, -base)
        cls = check(R, "mpf_set_str", r, val, f_get_prec(r.p), True, "set_str(%r..., %d) mantissa %d digits point %s exp %s" % (s_[:24], -base, ml, pp, ex))
        return (p, base, ml, pp is None, ex is None or 0 if ex is None else (ex > 0) - (ex < 0), cls)

    sp.append(Space("mpf_set_str_grid", [(p, b) for p in PRECS for b in (10, 16, 2, 36, 7)], sg_cases, sg_one,
                    "mpf_set_str: mantissa length %s x point position x exponent %s x 3 digit patterns x bases 10,16,2,36,7 (exponent in decimal)" % (MLEN, EXPS)))

    # ---------------- mpf_get_str ----------------
    def gs_cases(blk):
        p, na = blk
        for ma in mants(na, (0, 1, M, H)):
            for ea in (-2, 0, 1, na, na + 2):
                for base in (2, 10, 16, 62, -16):
                    for nd in (0, 1, 2, 5, 10, 17, 20):
                        yield (p, ma, ea, base, nd)

    def gs_one(case, R):
        p, ma, ea, base, nd = case
        e = env()
        na = al.nl(ma)
        if store_prec(ma) != p and na > (p + 127) // 64 + 1:
            return None
        fa = put("a", p if na <= (p + 127) // 64 + 1 else store_prec(ma), ma, ea, (ma >> 1) & 1)
        va = fa.get()
        ex = c_long(0)
        ptr = f_get_str(None, byref(ex), base, nd, fa.p)
        st = string_at(ptr)
        bs = S.v_block_size(ptr)
        S.v_free(ptr, len(st) + 1)
        if bs != len(st) + 1:
            R.fail("mpf_get_str", "allocated block %d bytes for string of length %d" % (bs, len(st)))
        s = st.decode("latin1")
        neg = s.startswith("-")
        digs = s[1:] if neg else s
        ab = abs(base)
        if neg != (va < 0):
            R.fail("mpf_get_str", "sign wrong for %s" % float(va))
        if nd and len(digs) > nd:
            R.fail("mpf_get_str", "%d digits requested, %d produced" % (nd, len(digs)))
        from .C06 import digit_value, B62, LOW, UPP
        alpha = B62 if ab > 36 else (UPP if base < 0 else LOW)
        if any(c not in alpha[:ab] for c in digs):
            R.fail("mpf_get_str", "digit outside the alphabet of base %d: %r" % (base, s[:30]))
            return None
        if digs.startswith("0") or (digs.endswith("0") and len(digs) > 0):
            if digs.startswith("0"):
                R.fail("mpf_get_str", "leading zero digit in %r" % s[:30])
        D = 0
        for c in digs:
            D = D * ab + alpha.index(c)
        k = len(digs)
        if va == 0:
            if digs != "" or ex.value != 0:
                R.fail("mpf_get_str", "zero must give the empty string and exponent 0, got %r e%d" % (s, ex.value))
            return (p, base, nd, "zero")
        approx = Fraction(D, ab ** k) * Fraction(ab) ** ex.value
        # digits the precision carries, counted conservatively from the significant limbs of the stored mantissa
        sig = ma
        while sig & M == 0:
            sig >>= 64
        sl = al.nl(sig)
        carried_min = min(int(64 * (sl - 1) / math.log2(ab)), int(f_get_prec(fa.p) / math.log2(ab)))
        err = abs(approx - abs(va))
        # T digits can be insisted on: the requested count, capped by what the precision surely carries.  Fewer digits than T appear
        # only when trailing zeros were stripped, and then the value is still matched to T digits.
        T = min(nd, carried_min) if nd else carried_min
        if T >= 1 and err > Fraction(ab) ** (ex.value - T):
            R.fail("mpf_get_str", "%s in base %d, %d digits requested: %r e%d is more than one unit of digit %d away" % (float(va), base, nd, s[:30], ex.value, T))
        if not (Fraction(ab) ** (ex.value - 1) <= approx <= Fraction(ab) ** ex.value):
            R.fail("mpf_get_str", "exponent %d inconsistent with digits %r" % (ex.value, s[:30]))
        return (p, base, nd, na, ea, k == nd)

    # last-digit accuracy at the precision's own digit capacity, over the whole exponent range: the working precision of the
    # conversion (limbs of the operand and of the power of the base actually used) is tightest when the top limb is small
    def gl_cases(blk):
        p, kind = blk
        pl = (p + 127) // 64            # prec in limbs; prec+1 limbs are stored
        for sh in range(64):
            if kind == "ones65":
                ma = ((1 << 65) - 1) << sh
            elif kind == "ones":
                ma = ((1 << (64 * pl + 1)) - 1) << sh
            elif kind == "dense":
                ma = ((al.PAT(pl + 1, sh)["dense"] | 1) >> 63) << sh | 1
            else:
                ma = (((1 << 64) + 1) << sh) | 1
            if al.nl(ma) > pl + 1:
                continue
            for ea in list(range(-66, 67, 1 if quick else 1)):
                for base in (10, 3, 62) if quick else (10, 3, 7, 36, 62):
                    cap = int(p / math.log2(base))
                    for nd in (cap, cap - 1):
                        yield (p, ma, ea, base, nd)

    glb = [(p, kind) for p in PRECS for kind in ("ones65", "ones", "dense", "b+1")]
    sp.append(Space("mpf_get_str_last_digit", glb, gl_cases, gs_one,
                    "mpf_get_str with as many digits as the precision carries (and one fewer), bases 10,3,62(,7,36): mantissas (2^65-1)<<s, all-ones<<s, dense<<s, (B+1)<<s|1 for every s<64 x every limb exponent -66..66: within one unit of the last requested digit"))

    gb = [(p, na) for p in PRECS for na in range(1, (p + 127) // 64 + 2) if na <= 3 or not quick]
    sp.append(Space("mpf_get_str", gb, gs_cases, gs_one, "mpf_get_str: bases 2,10,16,62,-16 x requested digits 0,1,2,5,10,17,20 x mantissas x exponents (allocated string block == strlen+1)"))

    # ---------------- operations on a variable whose precision was LOWERED with mpf_set_prec_raw: it still carries the limbs of the
    # higher precision, so |size| > prec+1 is legal input for every function until the precision is restored; in place and not ------------
    RAWP = ((192, 64), (192, 128), (256, 64), (256, 128), (256, 192), (448, 192), (448, 256), (448, 384)) if quick else \
           tuple((P, q) for P in (192, 256, 320, 448, 768) for q in range(64, P, 64))
    RAWOPS = ["add", "sub", "mul", "div", "div_rev", "sqrt", "mul_ui", "div_ui", "add_ui", "sub_ui", "ui_sub", "ui_div", "mul_2exp", "div_2exp", "neg", "abs", "floor", "ceil", "trunc", "set", "pow_ui"]
    _raw = {}

    def rw_cases(blk):
        P, q = blk
        PL = (P + 127) // 64 + 1          # limbs a variable of precision P may carry
        for xl in sorted({PL, PL - 1, (q + 127) // 64 + 2}):
            for xk in ("dense", "ones", "sqrt2"):
                for vl in (1, 2, 3, 5):
                    for oi in range(len(RAWOPS)):
                        for mode in (0, 1, 2):          # 0: r separate, 1: r == x (in place), 2: r == v
                            yield (P, q, xl, xk, vl, oi, mode)

    def rw_one(case, R):
        P, q, xl, xk, vl, oi, mode = case
        op = RAWOPS[oi]
        key = (P,)
        if key not in _raw:
            _raw[key] = (lib.F(P), lib.F(P), lib.F(P))
        x, v, r0 = _raw[key]
        if xk == "dense":
            mx = al.PAT(xl, 3)["dense"] | (1 << (64 * xl - 1)) | 1
        elif xk == "ones":
            mx = al.ones(xl)
        else:
            mx = math.isqrt(2 << (2 * 64 * xl - 2)) | 1
            mx &= al.ones(xl)
            mx |= 1 << (64 * xl - 1)
        mv = (al.PAT(vl, 7)["dense"] | (1 << (64 * vl - 1)) | 1) if vl > 1 else 7
        x.set_raw(mx, 2, False)
        v.set_raw(mv, 1, op in ("sub",))
        vx, vv = x.get(), v.get()
        r0.set_raw(M, 9, True)
        if mode == 2 and op in ("sqrt", "mul_ui", "div_ui", "add_ui", "sub_ui", "ui_sub", "ui_div", "mul_2exp", "div_2exp", "neg", "abs", "floor", "ceil", "trunc", "set", "pow_ui"):
            return None
        # lower the precision of the destination (and of x when it is the destination) the documented way
        dst = {0: r0, 1: x, 2: v}[mode]
        f_set_prec_raw(x.p, q)
        if dst is not x:
            f_set_prec_raw(dst.p, q)
        try:
            if op in ("add", "sub", "mul", "div"):
                f3[op](dst.p, x.p, v.p)
                ex = {"add": vx + vv, "sub": vx - vv, "mul": vx * vv, "div": vx / vv}[op]
            elif op == "div_rev":
                f3["div"](dst.p, v.p, x.p)
                ex = vv / vx
            elif op == "sqrt":
                f2["sqrt"](dst.p, x.p)
                ex = None
            elif op in ("mul_ui", "div_ui", "add_ui", "sub_ui"):
                fui[op](dst.p, x.p, 1000003)
                ex = {"mul_ui": vx * 1000003, "div_ui": vx / 1000003, "add_ui": vx + 1000003, "sub_ui": vx - 1000003}[op]
            elif op in ("ui_sub", "ui_div"):
                fuif[op](dst.p, 1000003, x.p)
                ex = 1000003 - vx if op == "ui_sub" else Fraction(1000003) / vx
            elif op in ("mul_2exp", "div_2exp"):
                fui[op](dst.p, x.p, 77)
                ex = vx * (1 << 77) if op == "mul_2exp" else vx / (1 << 77)
            elif op == "pow_ui":
                fui["pow_ui"](dst.p, x.p, 3)
                ex = vx ** 3
            else:
                f2[op](dst.p, x.p)
                ex = {"neg": -vx, "abs": abs(vx), "floor": Fraction(math.floor(vx)), "ceil": Fraction(math.ceil(vx)), "trunc": Fraction(math.trunc(vx)), "set": vx}[op]
            what = "%s after mpf_set_prec_raw(%d) on a %d-bit variable, x %d limbs (%s), v %d limbs, mode %d" % (op, q, P, xl, xk, vl, mode)
            pb = f_get_prec(dst.p)
            if pb < q:
                R.fail("mpf_get_prec", "%s: precision %d below %d" % (what, pb, q))
            if ex is None:
                got = dst.get()
                m = dst.wf()
                if m:
                    R.fail("mpf_sqrt", "%s: %s" % (what, m))
                elif not (got >= 0 and abs(got * got - vx) * (1 << (pb - 3)) < vx):
                    R.fail("mpf_sqrt", "%s: square differs from the operand beyond the precision" % what)
            elif mode == 1 and op in ("neg", "abs"):
                # in place these only touch the sign: the variable keeps the limbs it legally carried before the call (more than the
                # lowered prec+1), so the format is judged at the allocated precision; the value must be exact
                f_set_prec_raw(x.p, P)
                if dst.wf() or dst.get() != ex:
                    R.fail("mpf_" + op, "%s: in place result not exact / ill-formed at the allocated precision: %s" % (what, dst.wf()))
            else:
                check(R, "mpf_" + op.replace("_rev", ""), dst, ex, pb, False, what)
            if mode != 1 and x.get() != vx:
                R.fail("mpf_" + op, "%s: operand x modified" % what)
            if mode != 2 and v.get() != vv:
                R.fail("mpf_" + op, "%s: operand v modified" % what)
        finally:
            f_set_prec_raw(x.p, P)
            if dst is not x:
                f_set_prec_raw(dst.p, P)
        return (P, q, xl, vl, op, mode)

    if variant != "asan":
        sp.append(Space("mpf_ops_under_lowered_raw_precision", list(RAWP), rw_cases, rw_one,
                        "21 operations with the destination (and an operand) lowered by mpf_set_prec_raw so that it carries more limbs than prec+1: "
                        "(allocated, lowered) precisions x operand lengths x divisor/second operand of 1,2,3,5 limbs x (separate, in place on x, in place on v); precision restored before reuse"))

    # ---------------- precision histories (explicit-state BFS on real objects) ----------------
    HP = (64, 128, 192)
    HV = [Fraction(0), Fraction(1), Fraction(-3, 2), Fraction((1 << 190) + 1, 1 << 100), Fraction(M), Fraction(1, 3)]

    def hist_ops(alloc_p):
        ops = []
        for p in HP:
            ops.append(("set_prec", p))
            if p <= alloc_p:
                ops.append(("raw_op_restore", p))
        for vi in range(len(HV)):
            ops.append(("set_val", vi))
        ops += [("add_self", 0), ("mul_third", 0), ("div3", 0), ("sqrt_abs", 0)]
        return ops

    def hs_cases(blk):
        p0, vi0 = blk
        depth = 2 if quick else 3
        # enumerate every op sequence up to `depth` from the initial state (p0, value vi0); dedup on canonical state is done inside hs_one's
        # replay (state = (alloc prec, prec, value)); here: plain enumeration of sequences
        first = hist_ops(p0)
        for seq in itertools.product(range(len(first)), repeat=depth):
            yield (p0, vi0, seq)

    def hs_one(case, R):
        p0, vi0, seq = case
        e = env()
        f = lib.F(p0)
        tmp = e["b"][1024]
        alloc_p = p0
        exact_tracking = None
        v0 = HV[vi0]
        # initial value through set_q-like exact store when representable else via division
        e["q"].set(v0.numerator, v0.denominator)
        f_set_q(f.p, e["q"].p)
        names = []
        ops = hist_ops(p0)
        for oi in seq:
            op, arg = ops[oi]
            names.append(op + str(arg))
            before = f.get()
            if op == "set_prec":
                f_set_prec(f.p, arg)
                alloc_p = arg
                pb = f_get_prec(f.p)
                if pb < arg:
                    R.fail("mpf_set_prec", "history %s: precision %d < %d" % (names, pb, arg))
                after = f.get()
                # value is truncated to the new precision: must agree to within it and be exact if it fits
                if before != 0 and (f.wf() or abs(after - before) * (1 << (pb - 2)) >= abs(before) or (fits_bits(before, pb) and after != before)):
                    R.fail("mpf_set_prec", "history %s: value changed beyond the new precision (%s)" % (names, f.wf()))
            elif op == "raw_op_restore":
                if arg > alloc_p:
                    continue
                f_set_prec_raw(f.p, arg)
                pb = f_get_prec(f.p)
                x = before
                fui["mul_ui"](f.p, f.p, 3)
                m = f.wf()
                after = f.get()
                if m or (x != 0 and abs(after - 3 * x) * (1 << (pb - 2)) >= abs(3 * x)) or (x == 0 and after != 0):
                    R.fail("mpf_set_prec_raw", "history %s: op under raw precision %d wrong (%s)" % (names, arg, m))
                f_set_prec_raw(f.p, alloc_p)
            elif op == "set_val":
                v = HV[arg]
                pb = f_get_prec(f.p)
                e["q"].set(v.numerator, v.denominator)
                f_set_q(f.p, e["q"].p)
                check(R, "mpf_set_q", f, v, pb, True, "history %s" % names)
            else:
                pb = f_get_prec(f.p)
                x = before
                if op == "add_self":
                    f3["add"](f.p, f.p, f.p)
                    ex = 2 * x
                elif op == "mul_third":
                    tmp.set_frac(Fraction(1, 4))
                    f3["mul"](f.p, f.p, tmp.p)
                    ex = x / 4
                elif op == "div3":
                    fui["div_ui"](f.p, f.p, 3)
                    ex = x / 3
                else:
                    f2["abs"](f.p, f.p)
                    f2["sqrt"](f.p, f.p)
                    ex = None
                if ex is not None:
                    check(R, "mpf_history", f, ex, pb, fits_bits(x, pb), "history %s" % names)
                elif f.wf():
                    R.fail("mpf_history", "history %s: %s" % (names, f.wf()))
        # clearing must pass the allocated size: recording allocator checks it
        st = (alloc_p, f.s.prec, f.get())
        errs0 = lib.alloc_errors()
        f.clear()
        f.s.d = None
        if lib.alloc_errors() != errs0:
            R.fail("mpf_clear", "history %s: allocator contract violated at clear: %s" % (names, lib.alloc_msg()))
        R.count("states", 1)
        return (p0, tuple(names))

    if variant != "asan":
        sp.append(Space("mpf_precision_histories", [(p0, vi) for p0 in HP for vi in range(len(HV))], hs_cases, hs_one,
                        "every sequence of %d operations from {set_prec(p), set_prec_raw(p<=allocated)+op+restore, set value, add, mul, div_ui, sqrt} from every (precision, value) start; allocator contract checked at clear" % (2 if quick else 3)))
    return sp
