"""C02  Division returns the exact quotient/remainder with the documented rounding."""
import itertools, os
from ctypes import c_void_p, c_long, c_ulong, c_int, c_uint64
from .. import lib, alphabet as al, mpnops as mo, rt, optable as ot
from ..explore import Space

ID = "C02"
LEVEL = "exploration"
RULE = ("bounded-exhaustive enumeration: mpz division family (t/f/c x q/r/qr x mpz/_ui/_2exp, mod, divexact, divisible, congruent) over "
        "all (n,d) with n in {0,+-EXH(L5)<=3 limbs}, d in {+-EXH(L9)<=2 limbs} (d=0 only for the predicates), every alias pattern; "
        "mpn_tdiv_qr/tdiv_q/divrem for every (nn>=dn) up to N x divisor family (top limb 1, H-1, H, B-1, all ones, dense...) x dividend "
        "family (all ones, dense, shares top limbs with d, constructed q*d+r with q all-ones and r in {0,1,d-1}); single-limb division "
        "kernels for n=1..40 x RUN contents x divisor alphabet; the same under the run-time-threshold build at the floor vector, shipped "
        "vectors and single-threshold deviations. Oracle: Python divmod. distinct_nontrivial = distinct (function, configuration, shape, "
        "content index / sign-size class) tuples.")
RULE = RULE + (" " + 'Later additions: exact division on large operands; mpn_divrem with fraction limbs on every shape.')
ASSUMPTIONS = ["Python int divmod is the reference model", "zero divisors are generated only where the manual defines the result (divisible/congruent predicates)",
               "contents outside the stated families and sizes above the stated bounds are not explored"]
BUDGET = {"quick": 420, "thorough": 3300}
M = al.M
H = al.H
G = mo.G


def passes(tier):
    return ["pin", "rt"] if tier == "quick" else ["pin", "rt", "asan"]


def load(variant):
    if variant == "rt":
        rt.load()
    else:
        lib.load(variant)


_A = None


def arena(n):
    global _A
    if _A is None or _A.nl < n:
        _A = mo.Arena(max(n, 1 << 14))
    return _A


_dc = {}


def divisors(dn):
    v = _dc.get(dn)
    if v is None:
        top = 64 * (dn - 1)
        lo = al.ones(dn - 1) if dn > 1 else 0
        p = al.PAT(dn)
        v = [al.ones(dn), 1 << top, H << top, (H << top) | lo, ((H - 1) << top) | lo, p["dense"], (M << top), (1 << top) | lo,
             (H << top) | 1, ((H + 1) << top) | (lo >> 1), p["0101"] | (1 << (top + 62)), 3 << top if dn > 1 else 3]
        out = []
        for x in v:
            if x >> top and x not in out:
                out.append(x)
        v = _dc[dn] = out
    return v


def dividends(nn, dn, d):
    """nn-limb dividends for divisor d (index-stable list)"""
    qn = nn - dn
    sh = 64 * qn
    p = al.PAT(nn)
    out = [al.ones(nn), p["dense"], 1 << (64 * nn - 1), 1 << (64 * (nn - 1)), p["0101"]]
    out += [d << sh, (d << sh) | al.ones(qn), ((d << sh) - 1) & al.ones(nn), ((d - 1) << sh) | al.ones(qn)]
    if qn > 0:
        q = al.ones(qn)
        out += [q * d, q * d + (d - 1), q * d + 1, (q - 1) * d + (d - 1), (1 << (sh - 1)) * d + (d >> 1)]
        q2 = (1 << sh) - (1 << (sh // 2)) if sh > 1 else 1
        out += [q2 * d + (d - 1), (al.rep(H, qn)) * d + d // 3]
    else:
        out += [d, d - 1, d + 1 if d + 1 < (1 << (64 * nn)) else d, d // 2]
    out += [0, 1]
    lim = 1 << (64 * nn)
    return [x for x in out if 0 <= x < lim]


def spaces(tier, variant, seed):
    P = c_void_p
    quick = tier == "quick"
    sp = []
    f_tdiv_qr = lib.fn("mpn_tdiv_qr", None, P, P, c_long, P, c_long, P, c_long)
    f_tdiv_q = lib.fn("mpn_tdiv_q", None, P, P, c_long, P, c_long)
    f_divrem = lib.fn("mpn_divrem", c_uint64, P, c_long, P, c_long, P, c_long)

    CFG = {}
    if variant == "rt":
        CFG["floor"] = rt.floor_vector()
        ships = rt.ship_vectors()
        if quick:
            ks = sorted(ships, key=lambda k: ships[k]["dc_div_qr_threshold"])
            ships = {k: ships[k] for k in {ks[0], ks[-1]}}
        for k, v in ships.items():
            CFG["ship:" + k] = v
        dn_ = [n for n in rt.NAMES if ("div" in n or n.startswith(("mod_1", "binv"))) and "euclid" not in n]
        dev = rt.dev1_vectors(dn_)
        for k, v in dev.items():
            if v[k.split("=")[0]] < 300 or not quick:
                CFG["dev1:" + k] = v
    else:
        CFG["pin"] = None
    cur = {"cfg": None}
    BASECFG = "floor" if variant == "rt" else "pin"

    def set_cfg(cfg):
        if cfg != cur["cfg"]:
            if variant == "rt":
                rt.set_vector(CFG[cfg])
            cur["cfg"] = cfg

    def qr_one(case, R):
        cfg, nn, dn, di, ni = case
        set_cfg(cfg)
        d = divisors(dn)[di]
        n = dividends(nn, dn, d)[ni]
        return do_qr(R, cfg, nn, dn, n, d, (di, ni))

    def do_qr(R, cfg, nn, dn, n, d, key):
        qn = nn - dn + 1
        on = G
        od = on + nn + G
        oq = od + dn + G
        orr = oq + qn + G
        end = orr + dn + G
        A = arena(end + 2 * nn + 64)
        A.reset(end)
        A.put(on, n, nn)
        A.put(od, d, dn)
        f_tdiv_qr(A.addr(oq), A.addr(orr), 0, A.addr(on), nn, A.addr(od), dn)
        eq, er = divmod(n, d)
        gq, gr = A.get(oq, qn), A.get(orr, dn)
        if gq != eq or gr != er:
            R.fail("mpn_tdiv_qr", "nn=%d dn=%d: q %s r %s (n=%x d=%x)" % (nn, dn, "ok" if gq == eq else "WRONG", "ok" if gr == er else "WRONG", n, d))
        if A.get(on, nn) != n or A.get(od, dn) != d:
            R.fail("mpn_tdiv_qr", "nn=%d dn=%d: source modified" % (nn, dn))
        if not A.untouched(end, [(on, nn), (od, dn), (oq, qn), (orr, dn)]):
            R.fail("mpn_tdiv_qr", "nn=%d dn=%d: wrote outside qp/rp" % (nn, dn))
        # remainder in place over the dividend (rp == np is permitted)
        A.reset(end)
        A.put(on, n, nn)
        A.put(od, d, dn)
        f_tdiv_qr(A.addr(oq), A.addr(on), 0, A.addr(on), nn, A.addr(od), dn)
        gq, gr = A.get(oq, qn), A.get(on, dn)
        if gq != eq or gr != er:
            R.fail("mpn_tdiv_qr", "nn=%d dn=%d rp==np: q %s r %s (n=%x d=%x)" % (nn, dn, "ok" if gq == eq else "WRONG", "ok" if gr == er else "WRONG", n, d))
        # tdiv_q
        A.reset(end)
        A.put(on, n, nn)
        A.put(od, d, dn)
        f_tdiv_q(A.addr(oq), A.addr(on), nn, A.addr(od), dn)
        gq = A.get(oq, qn)
        if gq != eq:
            R.fail("mpn_tdiv_q", "nn=%d dn=%d: quotient wrong (n=%x d=%x)" % (nn, dn, n, d))
        if A.get(on, nn) != n or A.get(od, dn) != d or not A.untouched(end, [(on, nn), (od, dn), (oq, qn)]):
            R.fail("mpn_tdiv_q", "nn=%d dn=%d: source modified or wrote outside qp" % (nn, dn))
        # mpn_divrem needs a normalised divisor
        if d >> (64 * dn - 1):
            for qxn in ((0, 2) if nn <= 12 else (0,)):
                A.reset(end + qxn + 2)
                oq2 = oq
                orr2 = oq2 + qn + qxn + G
                A.put(on, n, nn)
                A.put(od, d, dn)
                ret = f_divrem(A.addr(oq2), qxn, A.addr(on), nn, A.addr(od), dn)
                q2, r2 = divmod(n << (64 * qxn), d)
                ql = nn - dn + qxn
                gq = A.get(oq2, ql) if ql else 0
                gr = A.get(on, dn)
                if gq != (q2 & al.ones(ql)) or ret != q2 >> (64 * ql) or gr != r2:
                    R.fail("mpn_divrem", "nn=%d dn=%d qxn=%d: q %s ret %x (exp %x) r %s (n=%x d=%x)" % (
                        nn, dn, qxn, "ok" if gq == (q2 & al.ones(ql)) else "WRONG", ret, q2 >> (64 * ql), "ok" if gr == r2 else "WRONG", n, d))
                if A.get(od, dn) != d or not A.untouched(end + qxn + 2, [(on, nn), (od, dn), (oq2, ql)]):
                    R.fail("mpn_divrem", "nn=%d dn=%d qxn=%d: divisor modified or wrote outside" % (nn, dn, qxn))
        return (cfg, nn, dn, key, eq == 0, er == 0)

    def qr_cases(blk):
        cfg, nn, dns = blk
        for dn in dns:
            ds = divisors(dn)
            for di, d in enumerate(ds):
                for ni in range(len(dividends(nn, dn, d))):
                    yield (cfg, nn, dn, di, ni)

    def shapes_blocks(cfg, N, step=1):
        b = []
        for nn in range(1, N + 1, 1):
            dns = list(range(1, nn + 1, step))
            for ch in al.chunks(dns, 24):
                b.append((cfg, nn, ch))
        return b

    def tiny_cases(blk):
        cfg, nn, dn = blk
        for d in al.EXH(al.L5, dn):
            if d >> (64 * (dn - 1)) == 0:
                continue
            for n in al.EXH(al.L5, nn):
                yield (cfg, nn, dn, n, d)

    def tiny_one(case, R):
        cfg, nn, dn, n, d = case
        set_cfg(cfg)
        return do_qr(R, cfg, nn, dn, n, d, (n % 1000003, d % 1000003))

    if variant != "rt":
        N = 110 if quick else 300
        if variant == "asan":
            N = 70
        sp.append(Space("pin_tdiv_qr_all_shapes", shapes_blocks("pin", N), qr_cases, qr_one,
                        "mpn_tdiv_qr (rp separate and rp==np), mpn_tdiv_q, mpn_divrem (qxn 0,2): every nn>=dn up to %d x 12 divisors x ~20 dividends" % N))
        tb = [("pin", nn, dn) for nn in range(1, 6) for dn in range(1, nn + 1) if nn + dn <= 7]
        sp.append(Space("pin_tdiv_qr_small_dense", tb, tiny_cases, tiny_one, "every (n,d) over EXH(L5) with nn+dn<=7"))
        # bands around the larger division thresholds (pinned values)
        th = rt.parse_mparam(os.path.join(lib.META["dir"], "gmp-mparam.h"))
        bshapes = []
        for nm in ("dc_div_qr_threshold", "dc_div_q_threshold", "dc_divappr_q_threshold", "inv_div_q_threshold", "inv_div_qr_threshold", "inv_divappr_q_n_threshold"):
            t = th.get(nm)
            if not t or (variant == "asan" and t > 200) or (quick and t > 1200):
                continue
            for dn in range(t - 1, t + 2):
                for nn in sorted({dn, dn + 1, dn + 2, 2 * dn - 1, 2 * dn, 2 * dn + 1, 3 * dn, dn + t // 2, 2 * dn + 7}):
                    if nn >= dn and nn > N:
                        bshapes.append(("pin", nn, [dn]))
            for qn in range(t - 1, t + 2):          # quotient size on the edge, divisor larger
                for dn in (qn + 5, 2 * qn, 3 * qn + 1):
                    if dn + qn - 1 > N:
                        bshapes.append(("pin", dn + qn - 1, [dn]))
        sp.append(Space("pin_div_bands", bshapes, qr_cases, qr_one, "shapes with dn or qn within +-1 of DC_DIV_QR/DC_DIV_Q/DC_DIVAPPR_Q/INV_DIV_Q(/INV_DIV_QR thorough) thresholds"))
    else:
        N1 = 64 if quick else 130
        sp.append(Space("rt_floor_tdiv_qr_all_shapes", shapes_blocks("floor", N1), qr_cases, qr_one,
                        "under the floor vector (DC 10, INV 10 ...): every nn>=dn up to %d" % N1))
        ob = []
        for cfg, v in CFG.items():
            if cfg == "floor":
                continue
            if cfg.startswith("dev1:"):
                nm, t = cfg[5:].split("=")
                t = int(t)
                if t > 2000:
                    continue
                for dn in range(max(1, t - 1), t + 2):
                    for nn in sorted({dn, dn + 1, 2 * dn - 1, 2 * dn, 2 * dn + 1, 3 * dn, dn + max(1, t // 2)}):
                        ob.append((cfg, nn, [dn]))
                for qn in range(max(2, t - 1), t + 2):
                    for dn in (qn + 5, 2 * qn):
                        ob.append((cfg, dn + qn - 1, [dn]))
            else:
                for nm in ("dc_div_qr_threshold", "dc_div_q_threshold", "dc_divappr_q_threshold"):
                    t = v[nm]
                    for dn in range(max(1, t - 1), t + 2):
                        for nn in sorted({dn, dn + 1, 2 * dn - 1, 2 * dn, 2 * dn + 1, 3 * dn}):
                            ob.append((cfg, nn, [dn]))
                    for qn in range(max(2, t - 1), t + 2):
                        for dn in (qn + 5, 2 * qn):
                            ob.append((cfg, dn + qn - 1, [dn]))
                for nn in range(2, 40 if quick else 90, 3):
                    ob.append((cfg, nn, list(range(1, nn + 1, 2))))
        sp.append(Space("rt_other_vectors", ob, qr_cases, qr_one, "shipped vectors and single-threshold deviations: shapes around each vector's own division thresholds"))

    # ---------------- single-limb division kernels ----------------
    f_divrem_1 = lib.fn("mpn_divrem_1", c_uint64, P, c_long, P, c_long, c_uint64)
    f_mod_1 = lib.fn("mpn_mod_1", c_uint64, P, c_long, c_uint64)
    f_by3c = lib.fn("mpn_divexact_by3c", c_uint64, P, P, c_long, c_uint64)
    f_dex1 = lib.fn("mpn_divexact_1", None, P, P, c_long, c_uint64)
    f_modexact = lib.fn("mpn_modexact_1c_odd", c_uint64, P, c_long, c_uint64, c_uint64)
    f_divrem_2 = lib.fn("mpn_divrem_2", c_uint64, P, c_long, P, c_long, P)
    f_premod = lib.fn("mpn_preinv_mod_1", c_uint64, P, c_long, c_uint64, c_uint64)
    N1L = 40 if quick else 72
    DL = [1, 2, 3, 5, 7, 10, 1 << 32, (1 << 32) - 1, (1 << 32) + 1, H - 1, H, H + 1, M - 1, M, 0x5555555555555555, 0xAAAAAAAAAAAAAAAB, 1 << 62, 6, 255, 0x100000001] + list(al.seeded(seed))

    def l_cases(blk):
        cfg, n = blk
        A = al.RUN_list(al.L5, n, 2) if n > 3 else list(al.EXH(al.L5, n))
        A = A + al.PATL(n)
        for a in A:
            for d in DL:
                yield (cfg, n, a, d)

    def l_one(case, R):
        cfg, n, a, d = case
        set_cfg(cfg)
        os_ = G
        oq = os_ + n + G
        end = oq + n + 3 + G
        A = arena(end)
        eq, er = divmod(a, d)
        for qxn in (0, 1, 3) if n <= 8 else (0,):
            A.reset(end)
            A.put(os_, a, n)
            r = f_divrem_1(A.addr(oq), qxn, A.addr(os_), n, d)
            q2, r2 = divmod(a << (64 * qxn), d)
            if A.get(oq, n + qxn) != q2 or r != r2:
                R.fail("mpn_divrem_1", "n=%d qxn=%d a=%x d=%x: got q=%x r=%x" % (n, qxn, a, d, A.get(oq, n + qxn), r))
            if A.get(os_, n) != a or not A.untouched(end, [(os_, n), (oq, n + qxn)]):
                R.fail("mpn_divrem_1", "n=%d: source modified or wrote outside" % n)
        # in place
        A.reset(end)
        A.put(os_, a, n)
        r = f_divrem_1(A.addr(os_), 0, A.addr(os_), n, d)
        if A.get(os_, n) != eq or r != er:
            R.fail("mpn_divrem_1", "in place n=%d a=%x d=%x" % (n, a, d))
        A.reset(end)
        A.put(os_, a, n)
        r = f_mod_1(A.addr(os_), n, d)
        if r != er:
            R.fail("mpn_mod_1", "n=%d a=%x d=%x: got %x expected %x" % (n, a, d, r, er))
        if d >> 63:
            inv = ((1 << 128) - 1) // d - (1 << 64)
            r = f_premod(A.addr(os_), n, d, inv)
            if r != er:
                R.fail("mpn_preinv_mod_1", "n=%d a=%x d=%x: got %x expected %x" % (n, a, d, r, er))
        if A.get(os_, n) != a:
            R.fail("mpn_mod_1", "source modified")
        if d & 1:
            # modexact_1c_odd: r with a - c = q*d + ... (r*B^n ≡ a - c mod d); checked through its defining congruence
            for c in (0, 1 if d > 1 else 0):
                r = f_modexact(A.addr(os_), n, d, c)
                # defined: exists q: a - c = q*d - r*B^n ... accept either documented range r in [0,d] with the congruence
                if not (0 <= r <= d and (a - c + r * (1 << (64 * n))) % d == 0):
                    R.fail("mpn_modexact_1c_odd", "n=%d a=%x d=%x c=%d: r=%x violates a-c+r*B^n == 0 mod d" % (n, a, d, c, r))
            # divexact_1 on an exact multiple
            m = (a // d) * d
            A.reset(end)
            A.put(os_, m, n)
            f_dex1(A.addr(oq), A.addr(os_), n, d)
            if A.get(oq, n) != m // d:
                R.fail("mpn_divexact_1", "n=%d m=%x d=%x: got %x" % (n, m, d, A.get(oq, n)))
            if A.get(os_, n) != m or not A.untouched(end, [(os_, n), (oq, n)]):
                R.fail("mpn_divexact_1", "source modified or wrote outside")
        elif d:
            m = (a // d) * d
            A.reset(end)
            A.put(os_, m, n)
            f_dex1(A.addr(oq), A.addr(os_), n, d)
            if A.get(oq, n) != m // d:
                R.fail("mpn_divexact_1", "n=%d m=%x d=%x (even): got %x" % (n, m, d, A.get(oq, n)))
        if d == 3:
            for c in (0, 1, 2):
                A.reset(end)
                A.put(os_, a, n)
                ret = f_by3c(A.addr(oq), A.addr(os_), n, c)
                g = A.get(oq, n)
                Bn = 1 << (64 * n)
                if (3 * g - (a - c)) % Bn != 0 or ret != (3 * g - (a - c)) // Bn:
                    R.fail("mpn_divexact_by3c", "n=%d a=%x c=%d: r=%x ret=%d" % (n, a, c, g, ret))
                if (a - c) % 3 == 0 and a >= c and (g != (a - c) // 3 or ret != 0):
                    R.fail("mpn_divexact_by3c", "exact case n=%d a=%x c=%d: r=%x ret=%d" % (n, a, c, g, ret))
        return (cfg, n, d, er == 0, eq == 0)

    cfgs1 = ["pin"] if variant != "rt" else ["floor"] + [c for c in CFG if c.startswith("dev1:mod_1") or c.startswith("dev1:divrem")]
    sp.append(Space("mpn_single_limb_division", [(c, n) for c in cfgs1 for n in range(1, N1L + 1)], l_cases, l_one,
                    "mpn_divrem_1 (qxn 0,1,3; in place), mpn_mod_1, mpn_preinv_mod_1, mpn_modexact_1c_odd, mpn_divexact_1, mpn_divexact_by3c: n=1..%d x RUN(L5,n,2)+PAT x %d divisors" % (N1L, len(DL))))

    def d2_cases(blk):
        nn = blk
        D2 = [x for x in divisors(2) if x >> 127]
        Ns = al.RUN_list(al.L5, nn, 2) + al.PATL(nn)
        for d in D2:
            for n in Ns:
                yield (nn, n, d)

    def d2_one(case, R):
        set_cfg(BASECFG)
        nn, n, d = case
        on, od = G, 2 * G + nn
        oq = od + 2 + G
        end = oq + nn + 2 + G
        A = arena(end)
        for qxn in (0, 1):
            A.reset(end)
            A.put(on, n, nn)
            A.put(od, d, 2)
            ret = f_divrem_2(A.addr(oq), qxn, A.addr(on), nn, A.addr(od))
            q2, r2 = divmod(n << (64 * qxn), d)
            ql = nn - 2 + qxn
            gq = A.get(oq, ql) if ql else 0
            if gq != q2 & al.ones(ql) or ret != q2 >> (64 * ql) or A.get(on, 2) != r2:
                R.fail("mpn_divrem_2", "nn=%d qxn=%d n=%x d=%x" % (nn, qxn, n, d))
            if A.get(od, 2) != d or not A.untouched(end, [(on, nn), (od, 2), (oq, ql)]):
                R.fail("mpn_divrem_2", "divisor modified or wrote outside")
        return (nn, d % 1000003, n % 1000003)

    sp.append(Space("mpn_divrem_2", list(range(2, 24 if quick else 40)), d2_cases, d2_one, "mpn_divrem_2 (assembly in the pinned build): nn=2.. x RUN(L5,nn,2)+PAT x normalised 2-limb divisors, qxn 0/1"))

    # ---------------- mpz layer ----------------
    NV = al.zvals(3)
    DV = [d for d in al.zvals(2, al.L9)]
    NBIG = [s * v for nn in (5, 9, 14) for v in (al.ones(nn), al.PAT(nn)["dense"], 1 << (64 * nn - 1)) for s in (1, -1)]
    DBIG = [s * v for dn in (3, 4, 6) for v in divisors(dn)[:6] for s in (1, -1)]
    ZOPS = [k for k in ot.OPS if k.startswith("mpz_") and ("div" in k or "mod" in k or "congruent" in k)]
    zz_ops = [k for k in ZOPS if ot.OPS[k].params in ("Zzz", "ZZzz") or k in ("mpz_divisible_p",)]
    ui_ops = [k for k in ZOPS if ot.OPS[k].params.endswith("u") and "congruent" not in k]
    ex_ops = [k for k in ZOPS if ot.OPS[k].params.endswith("b") and "congruent" not in k]

    def zz_cases(blk):
        name, i = blk
        op = ot.OPS[name]
        n = (NV + NBIG)[i]
        pats = op.alias_patterns()
        for d in DV + DBIG:
            if name == "mpz_divexact":
                if d == 0:
                    continue
                nn = n * d
                for ai in range(len(pats)):
                    yield (name, nn, d, ai, 0)
                continue
            for ai in range(len(pats)):
                yield (name, n, d, ai, 0)
            if n == d and n != 0:
                yield (name, n, d, 0, 1)

    def zz_one(case, R):
        set_cfg(BASECFG)
        name, n, d, ai, same = case
        op = ot.OPS[name]
        r = ot.run(op, (n, d), alias=op.alias_patterns()[ai], same_inputs=bool(same), R=R, junk=ai)
        if r is None:
            return None
        return (name, ai, same, al.sgn(n), al.sgn(d), al.nl(abs(n)), al.nl(abs(d)), tuple(al.sgn(x) for x in r[1]), r[2] if op.ret != "v" else None)

    sp.append(Space("mpz_div_zz", [(k, i) for k in zz_ops for i in range(len(NV + NBIG))], zz_cases, zz_one,
                    "mpz_{t,f,c}div_{q,r,qr}, mpz_mod, mpz_divexact, mpz_divisible_p: n x d over the stated sets, every alias pattern, same object for n and d"))

    UL = [1, 2, 3, 7, 1 << 32, H - 1, H, H + 1, M - 1, M, 10, 0]
    BL = [0, 1, 2, 63, 64, 65, 127, 128, 129, 191, 192, 193, 300]

    def zu_cases(blk):
        name, i = blk
        op = ot.OPS[name]
        n = (NV + NBIG)[i]
        pats = op.alias_patterns()
        sc = UL if op.params.endswith("u") else BL
        for s in sc:
            if name == "mpz_divexact_ui":
                if s == 0:
                    continue
                for ai in range(len(pats)):
                    yield (name, n * s, s, ai)
                continue
            for ai in range(len(pats)):
                yield (name, n, s, ai)

    def zu_one(case, R):
        set_cfg(BASECFG)
        name, n, s, ai = case
        op = ot.OPS[name]
        r = ot.run(op, (n, s), alias=op.alias_patterns()[ai], R=R, junk=ai)
        if r is None:
            return None
        return (name, ai, al.sgn(n), al.nl(abs(n)), s, tuple(al.sgn(x) for x in r[1]))

    sp.append(Space("mpz_div_ui_2exp", [(k, i) for k in ui_ops + ex_ops for i in range(len(NV + NBIG))], zu_cases, zu_one,
                    "_ui forms (returning |r|), _2exp forms, divexact_ui, divisible_ui_p/2exp_p: n x scalar alphabet, in place and separate"))

    # ---- exact division and divisibility at sizes that reach the Hensel (bdiv) code: sb_bdiv_q / dc_bdiv_q / inverse-based ----
    f_mpn_divexact = lib.fn("mpn_divexact", None, P, P, c_long, P, c_long)

    def dx_cases(blk):
        cfg, qn = blk
        top = 70 if quick else 160
        for dn in sorted(set(list(range(1, 12)) + list(range(12, top, 5)) + [18, 19, 20, 53, 54, 55])):
            if dn > top:
                continue
            for qi in range(5):
                for di in range(4):
                    for sh in (0, 1, 63, 64, 130):
                        if sh and (qi + di) % 3:
                            continue
                        yield (cfg, qn, dn, qi, di, sh)

    def dx_one(case, R):
        cfg, qn, dn, qi, di, sh = case
        set_cfg(cfg)
        q = [al.ones(qn), al.PAT(qn)["dense"], 1 << (64 * qn - 1), (1 << (64 * (qn - 1))) | 1, al.PAT(qn, 3)["dense"] | 1][qi]
        d = [al.ones(dn), al.PAT(dn)["dense"] | 1, (1 << (64 * dn - 1)) | 1, al.PAT(dn, 5)["dense"]][di]
        d <<= sh          # even divisors: low zero bits / whole zero limbs are shifted out first
        n = q * d
        sgn = -1 if (qi + di) & 1 else 1
        for name, args, exp in (("mpz_divexact", (sgn * n, d), None), ("mpz_divisible_p", (sgn * n, d), None), ("mpz_divisible_p", (n + (1 << (64 * (dn // 2))), d), None),
                                ("mpz_congruent_p", (n + 12345, 12345 - (d if qi & 1 else 0), d), None), ("mpz_congruent_p", (n + 7, 8, -d), None)):
            op = ot.OPS[name]
            for pat in (op.alias_patterns() if name == "mpz_divexact" else [{}]):
                ot.run(op, args, alias=pat, R=R, tag="%s[qn=%d,dn=%d,sh=%d]" % (name, qn, dn, sh))
        # mpn_divexact directly (needs the quotient to be exact and the top limb of d non-zero)
        nn = al.nl(n)
        dl = al.nl(d)
        A = arena(nn + dl + nn + 64)
        on, od, oq = G, 2 * G + nn, 3 * G + nn + dl
        end = oq + (nn - dl + 1) + G
        A.reset(end)
        A.put(on, n, nn)
        A.put(od, d, dl)
        f_mpn_divexact(A.addr(oq), A.addr(on), nn, A.addr(od), dl)
        if A.get(oq, nn - dl + 1) != q:
            R.fail("mpn_divexact", "nn=%d dn=%d shift %d: quotient wrong" % (nn, dl, sh))
        if A.get(on, nn) != n or A.get(od, dl) != d or not A.untouched(end, [(on, nn), (od, dl), (oq, nn - dl + 1)]):
            R.fail("mpn_divexact", "nn=%d dn=%d: source modified or wrote outside qp" % (nn, dl))
        return (cfg, qn, dn, qi, di, sh)

    qns = sorted(set(list(range(1, 12)) + [15, 18, 19, 20, 30, 53, 54, 55, 70] + ([] if quick else [100, 150])))
    sp.append(Space("exact_division_large", [(BASECFG, qn) for qn in qns], dx_cases, dx_one,
                    "mpz_divexact (every alias pattern), mpz_divisible_p, mpz_congruent_p, mpn_divexact on n = q*d with quotient and divisor sizes on both sides of DC_BDIV_Q/DC_BDIV_QR (Hensel division), even divisors with bit and whole-limb shifts"))

    CV = al.zvals(2)

    def cg_cases(blk):
        name, i = blk
        n = NV[i]
        if name == "mpz_congruent_p":
            for c in CV:
                for d in CV:
                    yield (name, n, c, d)
                yield (name, n, n, 0)
        elif name == "mpz_congruent_ui_p":
            for c in UL:
                for d in UL:
                    yield (name, n, c, d)
        else:
            for c in CV + [n, n + 1, n - 1, n + (1 << 64), n - (1 << 128), n ^ (1 << 63)]:
                for b in BL:
                    yield (name, n, c, b)

    def cg_one(case, R):
        set_cfg(BASECFG)
        name, n, c, d = case
        op = ot.OPS[name]
        r = ot.run(op, (n, c, d), R=R)
        if name == "mpz_congruent_p" and n == c:
            ot.run(op, (n, c, d), same_inputs=True, R=R)
        return (name, al.sgn(n), al.sgn(c), al.nl(abs(n)), al.nl(abs(c)), d if name != "mpz_congruent_p" else al.sgn(d), bool(r[2]))

    sp.append(Space("mpz_congruent", [(k, i) for k in ("mpz_congruent_p", "mpz_congruent_ui_p", "mpz_congruent_2exp_p") for i in range(len(NV))], cg_cases, cg_one,
                    "mpz_congruent_p/_ui_p/_2exp_p including d=0 (defined as equality)"))
    return sp
