"""C01  Multiplication is exact for every operand shape, content and algorithm regime."""
import itertools, os
from ctypes import c_void_p, c_long, c_ulong, c_int, c_uint64
from .. import lib, alphabet as al, mpnops as mo, rt
from ..explore import Space

ID = "C01"
LEVEL = "exploration"
RULE = ("bounded-exhaustive enumeration of operand shapes (every (un,vn) with un+vn <= N, every n for the balanced entry points, "
        "bands of +-2 around every dispatch edge read from the tree's own gmp-mparam.h, smallest/largest size of every FFT "
        "(depth,w) class) x content families (all-ones x all-ones, single bits, 0101, alternating limbs, dense, low-zero runs, "
        "EXH(L5) for tiny shapes, RUN(L5,.,2) for small shapes) x configurations (pinned build; run-time-threshold build under the "
        "tune-legal floor vector, every shipped gmp-mparam.h vector, and single-threshold deviations). Oracle: Python a*b. "
        "distinct_nontrivial = distinct (entry point, configuration, un, vn, content-pair index) tuples whose product is non-zero.")
RULE = RULE + (" " + 'Later additions: matrix-Fourier FFT regime with closed-form oracles, overlapping sources (prefix/suffix of the other operand), 128 feature subsets around every 500-limb seam of the chunked schoolbook path.')
ASSUMPTIONS = ["Python int multiplication is the reference model",
               "the rt variant (-DTUNE_PROGRAM_BUILD=1, the project's own switch) runs the same algorithm code as the pinned build except mulmod_2expp1_basecase's FFT branch",
               "contents outside the stated families and sizes above the stated bounds are not explored"]
BUDGET = {"quick": 420, "thorough": 3300}
M = al.M


def passes(tier):
    return ["pin", "rt"] if tier == "quick" else ["pin", "rt", "asan"]


def load(variant):
    if variant == "rt":
        rt.load()
    else:
        lib.load(variant)


_pc = {}


def pats(n):
    """content list for an n-limb operand (index-stable)"""
    v = _pc.get(n)
    if v is None:
        p = al.PAT(n)
        v = [p["ones"], p["dense"], p["0101"], p["altlimb"], p["bittop"], p["one"], p["lowzero_ones"], p["ones-1"],
             al.rep(al.H, n), p["Bn-1_pow+1"], 0]
        _pc[n] = v
    return v


# ordered content-pair indices into pats(): (i, j)
CP_FULL = [(0, 0), (0, 1), (1, 0), (1, 1), (2, 3), (3, 2), (4, 4), (5, 0), (0, 5), (6, 7), (7, 6), (8, 8), (9, 9), (1, 10), (10, 0), (4, 1)]
CP_MID = [(0, 0), (1, 1), (2, 3), (6, 7), (8, 0), (4, 4), (0, 1)]
CP_BIG = [(0, 0), (1, 1), (0, 1), (6, 7)]

_A = None


def arena(n):
    global _A
    if _A is None or _A.nl < n:
        _A = mo.Arena(max(n, 1 << 14))
    return _A


G = mo.G


def do_mul(R, tag, f, un, vn, a, b, kind):
    """kind: 'mul' (rp,up,un,vp,vn)->limb; 'mul_n' (rp,up,vp,n); 'sqr' (rp,up,n); 'mul_same' mpn_mul with up==vp; 'mul_n_same'"""
    ou = G
    ov = ou + un + G
    orr = ov + vn + G
    end = orr + un + vn + G
    A = arena(end)
    A.reset(end)
    A.put(ou, a, un)
    if kind in ("sqr", "mul_same", "mul_n_same"):
        b = a
        ov = ou
    elif kind == "mul_prefix":
        # the second source is the low part of the first one (sources may overlap each other; only the destination may not)
        b = a & al.ones(vn)
        ov = ou
    elif kind == "mul_suffix":
        b = a >> (64 * (un - vn))
        ov = ou + (un - vn)
    else:
        A.put(ov, b, vn)
    if kind in ("mul", "mul_prefix", "mul_suffix"):
        ret = f(A.addr(orr), A.addr(ou), un, A.addr(ov), vn)
    elif kind == "mul_same":
        ret = f(A.addr(orr), A.addr(ou), un, A.addr(ou), un)
    elif kind == "mul_n":
        ret = f(A.addr(orr), A.addr(ou), A.addr(ov), un)
    elif kind == "mul_n_same":
        ret = f(A.addr(orr), A.addr(ou), A.addr(ou), un)
    else:
        ret = f(A.addr(orr), A.addr(ou), un)
    e = a * b
    g = A.get(orr, un + vn)
    if g != e:
        x = g ^ e
        lo = (x & -x).bit_length() - 1
        R.fail(tag, "%s un=%d vn=%d: product wrong; differs in bits %d..%d" % (kind, un, vn, lo, x.bit_length() - 1))
    elif kind in ("mul", "mul_same", "mul_prefix", "mul_suffix") and ret != e >> (64 * (un + vn - 1)):
        R.fail(tag, "%s un=%d vn=%d: returned high limb %x, expected %x" % (kind, un, vn, ret, e >> (64 * (un + vn - 1))))
    if A.get(ou, un) != a or (ov != ou and not (ou <= ov < ou + un) and A.get(ov, vn) != b):
        R.fail(tag, "%s un=%d vn=%d: source operand modified" % (kind, un, vn))
    if not A.untouched(end, [(ou, un), (ov, vn if ov != ou and not (ou <= ov < ou + un) else 0), (orr, un + vn)]):
        R.fail(tag, "%s un=%d vn=%d: wrote outside {rp,un+vn}" % (kind, un, vn))
    return e != 0


def thr_values():
    """dispatch thresholds of the library under test (variables in rt, parsed table otherwise)"""
    if lib.VARIANT == "rt":
        return rt.get()
    return rt.parse_mparam(os.path.join(lib.META["dir"], "gmp-mparam.h"))


def band_shapes(T, delta=2, vmin=1, step=1):
    """all (un,vn), un>=vn>=vmin with un+vn in T-delta..T+delta"""
    out = []
    for t in range(max(2, T - delta), T + delta + 1):
        for vn in range(vmin, t // 2 + 1, step):
            out.append((t - vn, vn))
    return out


def spaces(tier, variant, seed):
    P = c_void_p
    fmul = lib.fn("mpn_mul", c_uint64, P, P, c_long, P, c_long)
    fmul_n = lib.fn("mpn_mul_n", None, P, P, P, c_long)
    fsqr = lib.fn("mpn_sqr", None, P, P, c_long)
    sp = []
    quick = tier == "quick"

    def shape_cases(pairs):
        def gen(blk):
            cfg, un, vns = blk
            pu = pats(un)
            for vn in vns:
                pv = pats(vn)
                for k, (i, j) in enumerate(pairs):
                    yield (cfg, un, vn, k, i, j)
        return gen

    cur = {"cfg": None}
    BASECFG = "floor" if variant == "rt" else "pin"

    def set_cfg(cfg):
        if cfg != cur["cfg"]:
            if variant == "rt":
                rt.set_vector(CFG[cfg])
            cur["cfg"] = cfg

    def mul_one(case, R):
        cfg, un, vn, k, i, j = case
        set_cfg(cfg)
        nz = do_mul(R, "mpn_mul", fmul, un, vn, pats(un)[i], pats(vn)[j], "mul")
        if vn < un and k < 3:
            # overlapping sources: the shorter operand is the low / high part of the longer one
            do_mul(R, "mpn_mul", fmul, un, vn, pats(un)[i], 0, "mul_prefix")
            if k == 1:
                do_mul(R, "mpn_mul", fmul, un, vn, pats(un)[i], 0, "mul_suffix")
        return (cfg, un, vn, k) if nz else None

    def bal_cases(pairs):
        def gen(blk):
            cfg, ns = blk
            for n in ns:
                for k, (i, j) in enumerate(pairs):
                    yield (cfg, "mul_n", n, k, i, j)
                    if i == j:
                        yield (cfg, "sqr", n, k, i, j)
                        yield (cfg, "mul_same", n, k, i, j)
                        yield (cfg, "mul_n_same", n, k, i, j)
        return gen

    def bal_one(case, R):
        cfg, kind, n, k, i, j = case
        set_cfg(cfg)
        f = {"mul_n": fmul_n, "sqr": fsqr, "mul_same": fmul, "mul_n_same": fmul_n}[kind]
        nz = do_mul(R, "mpn_" + kind, f, n, n, pats(n)[i], pats(n)[j], kind)
        return (cfg, kind, n, k) if nz else None

    # tiny / small shapes with dense content enumeration
    def tiny_cases(blk):
        cfg, un, vn = blk
        if un + vn <= 6:
            A, Bs = list(al.EXH(al.L5, un)), list(al.EXH(al.L5, vn))
        else:
            A, Bs = al.RUN_list(al.L5, un, 2), al.RUN_list(al.L5, vn, 2)
        for a in A:
            for b in Bs:
                yield (cfg, un, vn, a, b)

    def tiny_one(case, R):
        cfg, un, vn, a, b = case
        set_cfg(cfg)
        nz = do_mul(R, "mpn_mul", fmul, un, vn, a, b, "mul")
        if un == vn:
            do_mul(R, "mpn_mul_n", fmul_n, un, vn, a, b, "mul_n")
            if a == b:
                do_mul(R, "mpn_sqr", fsqr, un, un, a, a, "sqr")
        return (cfg, un, vn, a % 1000003, b % 1000003) if nz else None

    CFG = {}
    if variant == "rt":
        CFG["floor"] = rt.floor_vector()
        ships = rt.ship_vectors()
        if quick:
            # the four shipped tables with the extreme values of the multiplication thresholds
            keys = sorted(ships, key=lambda k: ships[k]["mul_toom8h_threshold"])
            pick = {keys[0], keys[-1]}
            keys2 = sorted(ships, key=lambda k: ships[k]["mul_fft_full_threshold"])
            pick |= {keys2[0], keys2[-1]}
            ships = {k: ships[k] for k in sorted(pick)}
        for k, v in ships.items():
            CFG["ship:" + k] = v
        mulnames = [n for n in rt.NAMES if n.startswith(("mul_", "sqr_"))]
        dev = rt.dev1_vectors(mulnames)
        if quick:
            dev = {k: v for k, v in dev.items() if "fft" not in k}
        for k, v in dev.items():
            CFG["dev1:" + k] = v
    else:
        CFG["pin"] = None

    if variant != "rt":
        N = 520 if quick else 1100
        if variant == "asan":
            N = 260
        blocks = []
        for un in range(1, N):
            vns = [vn for vn in range(1, un + 1) if un + vn <= N]
            if vns:
                for ch in al.chunks(vns, 64):
                    blocks.append(("pin", un, ch))
        sp.append(Space("pin_mul_all_shapes", blocks, shape_cases(CP_FULL if quick else CP_FULL), mul_one,
                        "mpn_mul: every (un>=vn) with un+vn<=%d x %d ordered content pairs (pinned thresholds)" % (N, len(CP_FULL))))
        NB = 420 if quick else 1500
        if variant == "asan":
            NB = 200
        sp.append(Space("pin_balanced", [("pin", list(ch)) for ch in al.chunks(list(range(1, NB + 1)), 8)], bal_cases(CP_FULL), bal_one,
                        "mpn_mul_n, mpn_sqr, mpn_mul with the same pointer twice, mpn_mul_n same pointer: n=1..%d" % NB))
        T = 6 if quick else 6
        TS = 20 if quick else 24
        tb = [("pin", un, vn) for un in range(1, TS) for vn in range(1, un + 1) if un + vn <= TS]
        sp.append(Space("pin_small_dense", tb, tiny_cases, tiny_one,
                        "mpn_mul/mul_n/sqr: EXH(L5) for un+vn<=6, RUN(L5,.,2)^2 for un+vn<=%d" % TS))
        # bands around dispatch edges beyond N
        th = thr_values()
        edges = []
        for nm in ("mul_toom3_threshold", "mul_toom4_threshold", "mul_toom8h_threshold", "mul_fft_full_threshold"):
            if nm in th and 2 * th[nm] + 2 > N:
                edges.append((nm, 2 * th[nm]))
        if "mul_toom4_threshold" in th and 6 * th["mul_toom4_threshold"] + 2 > N:
            edges.append(("6*toom4", 6 * th["mul_toom4_threshold"]))
        bb = []
        for nm, T_ in edges:
            big = T_ > 3000
            if variant == "asan" and big:
                continue
            shp = band_shapes(T_, 2 if not quick or not big else 1, 1, 1 if not big else (7 if quick else 1))
            for ch in al.chunks(shp, 16):
                bb.append((nm, ch))
        # long-and-thin: the 500-limb chunking of schoolbook with the saved triangle
        kara = th.get("mul_karatsuba_threshold", 17)
        thin = [(un, vn) for un in (499, 500, 501, 502, 999, 1000, 1001, 1002, 1499, 1501, 2003) for vn in range(1, kara + 2)]
        for ch in al.chunks(thin, 16):
            bb.append(("thin", ch))
        # fft second condition 3*vn > FFT_FULL with un+vn far above
        fftf = th.get("mul_fft_full_threshold", 3520)
        if variant != "asan":
            v0 = fftf // 3
            un3 = [(2 * fftf + 40 - vn, vn) for vn in range(v0 - 2, v0 + 4)] + [(4 * fftf, vn) for vn in range(v0 - 1, v0 + 3)]
            for ch in al.chunks(un3, 4):
                bb.append(("3vn=fft", ch))

        def band_cases(blk):
            nm, shp = blk
            for un, vn in shp:
                prs = CP_BIG if un + vn > 3000 else CP_MID
                for k, (i, j) in enumerate(prs):
                    yield ("pin", un, vn, k, i, j)

        # seams of the chunked schoolbook path (un > 500, vn < KARATSUBA): every subset of seven "features" placed around each 500-limb
        # block boundary K (runs of vn all-ones limbs just below / at / above K, single ones at K-1, K, K+vn, an all-ones limb at K+vn):
        # a carry that must ripple out of the add-back of the saved triangle only exists for such contents
        def seam_u(un, vn, mask):
            u = 1 << (64 * (un - 1))
            for K in range(500, un - vn - 1, 500):
                if mask & 1:
                    u |= al.ones(vn) << (64 * (K - vn))
                if mask & 2:
                    u |= 1 << (64 * K)
                if mask & 4:
                    u |= 1 << (64 * (K + vn))
                if mask & 8:
                    u |= al.ones(vn) << (64 * K)
                if mask & 16:
                    u |= al.M << (64 * (K + vn))
                if mask & 32:
                    u |= 1 << (64 * (K - 1))
                if mask & 64 and K - 2 * vn >= 0:
                    u |= al.ones(vn) << (64 * (K - 2 * vn))
            return u & al.ones(un)

        def seam_v(vn, j):
            top = 64 * vn
            return [al.ones(vn), al.ones(vn) - 1, 1 << (top - 1), (1 << (top - 1)) + 1, al.PAT(vn, 5)["dense"] | (1 << (top - 1)), (al.ones(vn) >> 1) | 1][j]

        def seam_cases(blk):
            cfg, un, vn = blk
            for mask in range(128):
                for j in range(6):
                    yield (cfg, un, vn, mask, j)

        def seam_one(case, R):
            cfg, un, vn, mask, j = case
            set_cfg(cfg)
            nz = do_mul(R, "mpn_mul", fmul, un, vn, seam_u(un, vn, mask), seam_v(vn, j), "mul")
            return (cfg, un, vn, mask, j) if nz else None

        sp.append(Space("pin_chunk_seams", [("pin", un, vn) for un in ((1001, 1200) if quick else (1001, 1200, 1499, 1501, 2003)) for vn in sorted({1, 2, 3, 5, 8, 15, kara - 1, kara}) if 1 <= vn <= kara],
                        seam_cases, seam_one, "chunked schoolbook (un in {1001,1200,..}, vn < KARATSUBA): 128 feature subsets around every 500-limb block boundary x 6 multiplier patterns"))

        sp.append(Space("pin_bands", bb, band_cases, mul_one,
                        "mpn_mul: every shape with un+vn within +-2 of 2*TOOM3/TOOM4/TOOM8H/FFT_FULL and 6*TOOM4 (values from the tree's gmp-mparam.h), "
                        "un in {499..502,999..1002,..} x vn<=KARA+1 (chunked schoolbook), 3*vn around FFT_FULL"))
        # ---- the largest FFT regime (matrix-Fourier algorithm, depth >= 11: un+vn above ~65 k limbs) with closed-form oracles ----
        def huge_cases(blk):
            un, vn, part = blk
            for i, c in enumerate(huge_all(un, vn)):
                if i % 6 == part:
                    yield c

        def huge_all(un, vn):
            yield (un, vn, "ones", 0)
            if un == vn:
                yield (un, vn, "sqr_ones", 0)
                yield (un, vn, "sqr_bit", 64 * (un // 3) + 17)
            for k in (0, 1, 63, 64, 1529, 1530, 1531, 3060, 64 * (un // 2), 64 * (un // 2) + 765, 64 * un - 1, 64 * un - 1531, 99991, 12345 * 64 + 5, 7 * 1530, 1000003):
                if k < 64 * un:
                    yield (un, vn, "bit_u", k)
                if k < 64 * vn:
                    yield (un, vn, "bit_v", k)
            yield (un, vn, "ones_u", 0)
            yield (un, vn, "ones_v", 0)
            yield (un, vn, "sparse_u", 3)
            yield (un, vn, "sparse_v", 5)

        def huge_one(case, R):
            un, vn, fam, k = case
            set_cfg("pin")
            du, dv = al.PAT(un, 11)["dense"], al.PAT(vn, 12)["dense"]
            if fam == "ones":
                a, b = al.ones(un), al.ones(vn)
                e = (1 << (64 * (un + vn))) - (1 << (64 * un)) - (1 << (64 * vn)) + 1
            elif fam == "sqr_ones":
                a = b = al.ones(un)
                e = (1 << (128 * un)) - (1 << (64 * un + 1)) + 1
            elif fam == "sqr_bit":
                a = b = (1 << k) | 1
                e = (1 << (2 * k)) + (1 << (k + 1)) + 1
            elif fam == "bit_u":
                a, b = 1 << k, dv
                e = dv << k
            elif fam == "bit_v":
                a, b = du, 1 << k
                e = du << k
            elif fam == "ones_u":
                a, b = al.ones(un), dv
                e = (dv << (64 * un)) - dv
            elif fam == "ones_v":
                a, b = du, al.ones(vn)
                e = (du << (64 * vn)) - du
            else:
                bits = [0, 1530 * k, 64 * (un if fam == "sparse_u" else vn) - 1 - 1530 * 2, 64 * 100 + 7]
                sp_ = 0
                for t in bits:
                    sp_ |= 1 << t
                if fam == "sparse_u":
                    a, b = sp_, dv
                    e = sum(dv << t for t in set(bits))
                else:
                    a, b = du, sp_
                    e = sum(du << t for t in set(bits))
            ou = G
            ov = ou + un + G
            orr = ov + vn + G
            end = orr + un + vn + G
            A = arena(end)
            A.reset(end)
            A.put(ou, a, un)
            same = fam.startswith("sqr")
            if not same:
                A.put(ov, b, vn)
            ret = fmul(A.addr(orr), A.addr(ou), un, A.addr(ou if same else ov), vn)
            g = A.get(orr, un + vn)
            if g != e:
                x = g ^ e
                R.fail("mpn_mul", "un=%d vn=%d %s k=%d: product wrong; differs in bits %d..%d" % (un, vn, fam, k, (x & -x).bit_length() - 1, x.bit_length() - 1))
            elif ret != e >> (64 * (un + vn - 1)):
                R.fail("mpn_mul", "un=%d vn=%d %s: returned high limb wrong" % (un, vn, fam))
            if A.get(ou, un) != a or not A.untouched(end, [(ou, un), (ov, vn), (orr, un + vn)]):
                R.fail("mpn_mul", "un=%d vn=%d %s: source modified or wrote outside" % (un, vn, fam))
            return (un, vn, fam, k)

        if variant != "asan":
            hs = [(33000, 33000), (33600, 33000), (40000, 26000)]
            if not quick:
                hs += [(66000, 22100), (50000, 50000), (65536, 65536), (70000, 70000), (131072, 131072), (200000, 100000), (262144, 262000), (100000, 33400)]
            sp.append(Space("pin_fft_mfa_regime", [(u, v, part) for (u, v) in hs for part in range(6)], huge_cases, huge_one,
                            "mpn_mul in the matrix-Fourier FFT regime (un+vn above 65 k limbs): all-ones x all-ones, squares, single-bit and sparse operands at coefficient-width multiples (1530 bits) and limb edges x dense, all-ones x dense: closed-form oracles"))

        # balanced bands for sqr thresholds above NB
        sb = []
        for nm in ("sqr_fft_full_threshold", "mul_fft_full_threshold", "sqr_toom8_threshold", "mul_toom8h_threshold"):
            if nm in th and th[nm] + 3 > NB and (variant != "asan"):
                sb.append(("pin", list(range(th[nm] - 2, th[nm] + 4))))
                sb.append(("pin", list(range(2 * th[nm] - 2, 2 * th[nm] + 3))))

        sp.append(Space("pin_balanced_bands", sb, bal_cases(CP_MID), bal_one, "mpn_mul_n/sqr around SQR/MUL FFT_FULL and TOOM8 thresholds"))
    else:
        # run-time threshold build: dense shapes under the floor vector, bands under the others
        N1 = 230 if quick else 420
        blocks = []
        for un in range(1, N1):
            vns = [vn for vn in range(1, un + 1) if un + vn <= N1]
            for ch in al.chunks(vns, 48):
                blocks.append(("floor", un, ch))
        sp.append(Space("rt_floor_all_shapes", blocks, shape_cases(CP_FULL), mul_one,
                        "mpn_mul under the floor vector (KARA 4, TOOM3 17, TOOM4 32, TOOM8H 86, FFT 96): every (un>=vn), un+vn<=%d x %d content pairs" % (N1, len(CP_FULL))))
        NB1 = 200 if quick else 500
        sp.append(Space("rt_floor_balanced", [("floor", list(ch)) for ch in al.chunks(list(range(1, NB1 + 1)), 8)], bal_cases(CP_FULL), bal_one,
                        "mpn_mul_n/sqr/same-pointer under the floor vector n=1..%d" % NB1))
        TS = 16 if quick else 20
        tb = [("floor", un, vn) for un in range(1, TS) for vn in range(1, un + 1) if un + vn <= TS]
        sp.append(Space("rt_floor_small_dense", tb, tiny_cases, tiny_one, "dense contents (EXH/RUN over L5) under the floor vector, un+vn<=%d" % TS))
        # RUN contents through every Toom interpolation at floor sizes
        def run_cases(blk):
            cfg, un, vn = blk
            A = al.RUN_list(al.L3, un, 2)
            Bs = al.RUN_list(al.L3, vn, 1) + [1, al.ones(vn) - 1, al.ones(vn) ^ al.ones(vn // 2)]
            for a in A:
                for b in Bs:
                    yield (cfg, un, vn, a, b)
        rshapes = [("floor", un, vn) for (un, vn) in [(8, 8), (17, 17), (18, 12), (24, 9), (33, 33), (40, 25), (48, 20), (64, 64), (90, 90), (100, 60), (120, 40), (130, 90)]]
        if not quick:
            rshapes += [("floor", un, vn) for un in range(20, 140, 7) for vn in (un, (2 * un) // 3 + 1, un // 2 + 1, un // 3 + 1, un // 4 + 1)]
        sp.append(Space("rt_floor_run_contents", rshapes, run_cases, tiny_one,
                        "RUN(L3,un,2) x RUN(L3,vn,1)+ through Karatsuba/Toom-3/4/8h/toom42/32/53/FFT at floor sizes"))
        # other vectors: balanced sweep + bands around that vector's own edges
        ob, bb = [], []
        for cfg, v in CFG.items():
            if cfg == "floor":
                continue
            top = max(v["mul_toom8h_threshold"], v["sqr_toom8_threshold"]) + 6
            ns = list(range(1, min(top, 420 if quick else 700)))
            if cfg.startswith("dev1:"):
                # only sizes near the deviated threshold (and its double) matter
                t = int(cfg.split("=")[1])
                ns = sorted(set(list(range(max(1, t - 3), t + 4)) + list(range(max(1, 2 * t - 3), 2 * t + 4)) + list(range(max(1, t // 2 - 1), t // 2 + 3))))
                ns = [n for n in ns if n < 4000]
            for ch in al.chunks(ns, 8):
                ob.append((cfg, list(ch)))
            for nm in ("mul_karatsuba_threshold", "mul_toom3_threshold", "mul_toom4_threshold", "mul_toom8h_threshold", "mul_fft_full_threshold"):
                T_ = 2 * v[nm]
                if nm == "mul_karatsuba_threshold":
                    T_ = v[nm] * 3
                if cfg.startswith("dev1:") and nm not in cfg:
                    continue
                big = T_ > 3000
                if big and quick and not cfg.startswith("ship:"):
                    continue
                shp = band_shapes(T_, 1 if big else 2, 1, (29 if quick else 5) if big else (3 if quick else 1))
                for ch in al.chunks(shp, 12):
                    bb.append((cfg, ch))
        sp.append(Space("rt_other_balanced", ob, bal_cases(CP_MID), bal_one,
                        "mpn_mul_n/sqr under every shipped vector (n up to its Toom-8 threshold) and around each single-threshold deviation"))

        def band_cases2(blk):
            cfg, shp = blk
            for un, vn in shp:
                prs = CP_BIG if un + vn > 3000 else CP_MID
                for k, (i, j) in enumerate(prs):
                    yield (cfg, un, vn, k, i, j)
        sp.append(Space("rt_other_bands", bb, band_cases2, mul_one,
                        "mpn_mul: shapes within +-2 of each vector's own 2*TOOM3/TOOM4/TOOM8H/FFT_FULL edges"))
    spaces_cfg = CFG

    # ---- mul_1 / addmul_1 / submul_1 ----
    f1 = {k: mo.bind(lib.L, k) for k in ("mul_1", "addmul_1", "submul_1")}
    N1 = 40 if quick else 72
    LIMBS = al.L11(seed)

    def m1_cases(blk):
        op, n = blk
        A = al.RUN_list(al.L5, n, 2) if n > 3 else list(al.EXH(al.L5, n))
        A += [p for p in al.PATL(n)]
        for a in A:
            for l in LIMBS:
                yield (op, n, a, l, 0)
                yield (op, n, a, l, 1)

    def m1_one(case, R):
        set_cfg(BASECFG)
        op, n, a, l, ip = case
        cls, ref = mo.REF[op]
        if cls == "l1a":
            r0 = (a * 0x9E3779B97F4A7C15 + (al.ones(n) if l & 1 else 0)) & al.ones(n)
            m = mo.run_l1(arena(4096), f1[op], ref, n, a, l, ip, r0=r0)
            sg = ref(a if ip else r0, a, n, l)[0]
        else:
            m = mo.run_l1(arena(4096), f1[op], ref, n, a, l, ip)
            sg = ref(a, n, l)[0]
        if m:
            R.fail("mpn_" + op, m)
        return (op, n, ip, sg == 0, sg == M - 1, l)

    sp.append(Space("mpn_mul_1_addmul_1_submul_1", [(op, n) for n in range(1, N1 + 1) for op in f1], m1_cases, m1_one,
                    "mpn_mul_1/addmul_1/submul_1: n=1..%d x RUN(L5,n,2)+PAT x multiplier in L11(seed) x {separate,in place}" % N1))

    # ---- mpz layer ----
    zmul = lib.fn("mpz_mul", None, P, P, P)
    zmul_ui = lib.fn("mpz_mul_ui", None, P, P, c_ulong)
    zmul_si = lib.fn("mpz_mul_si", None, P, P, c_long)
    zam = {k: lib.fn("mpz_" + k, None, P, P, P) for k in ("addmul", "submul")}
    zamu = {k: lib.fn("mpz_" + k, None, P, P, c_ulong) for k in ("addmul_ui", "submul_ui")}
    pool = {}

    def zs():
        if not pool:
            pool["w"], pool["u"], pool["v"] = lib.Z(), lib.Z(), lib.Z()
        return pool["w"], pool["u"], pool["v"]

    ZV = al.zvals(3)
    ZV2 = al.zvals(2)
    ZBIG = [s * v for n in (5, 9, 17, 30) for v in (pats(n)[0], pats(n)[1], pats(n)[6], pats(n)[4]) for s in (1, -1)]

    def zm_cases(blk):
        i = blk
        a = (ZV + ZBIG)[i]
        for b in ZV + ZBIG:
            for mode in (0, 1, 2):
                for alloc in (0, 1):
                    yield (a, b, mode, alloc)
            if a == b:
                yield (a, b, 3, 0)
                yield (a, b, 4, 0)
                yield (a, b, 4, 1)

    def zm_one(case, R):
        set_cfg(BASECFG)
        a, b, mode, alc = case
        w, u, v = zs()
        e = a * (b if mode < 3 else a)
        u.set(a)
        v.set(b)
        big = al.nl(abs(e)) + 3
        if mode == 0:
            w.set(77, alloc=big if alc else 1)
            zmul(w.p, u.p, v.p)
            out = w
        elif mode == 1:
            if alc:
                u.set(a, alloc=big)
            zmul(u.p, u.p, v.p)
            out = u
        elif mode == 2:
            if alc:
                v.set(b, alloc=big)
            zmul(v.p, u.p, v.p)
            out = v
        elif mode == 3:
            zmul(u.p, u.p, u.p)
            out = u
        else:
            w.set(5, alloc=big if alc else 1)
            zmul(w.p, u.p, u.p)
            out = w
        g = out.get()
        if g != e:
            R.fail("mpz_mul", "got %x expected %x (alias mode %d alloc %d)" % (g, e, mode, alc))
        m = out.wf()
        if m:
            R.fail("mpz_mul", "result ill-formed: " + m)
        if out is not u and u.get() != a:
            R.fail("mpz_mul", "input u modified")
        if out is not v and mode < 3 and v.get() != b:
            R.fail("mpz_mul", "input v modified")
        return ("mul", mode, alc, al.sgn(a), al.sgn(b), al.nl(abs(a)), al.nl(abs(b)), al.nl(abs(e)))

    sp.append(Space("mpz_mul", list(range(len(ZV + ZBIG))), zm_cases, zm_one,
                    "mpz_mul: all ordered pairs of {0,+-EXH(L5)<=3 limbs} + larger PAT values, alias modes (w, w==u, w==v, w==u==v, u==v), destination tight/roomy"))

    SI = [0, 1, -1, 2, -2, (1 << 63) - 1, -(1 << 63), -(1 << 63) + 1, 1 << 32, -(1 << 32), 3]
    UI = list(al.L9) + [3]

    def zu_cases(blk):
        i = blk
        a = (ZV + ZBIG)[i]
        for l in UI:
            for ip in (0, 1):
                yield ("mul_ui", a, l, ip)
        for l in SI:
            for ip in (0, 1):
                yield ("mul_si", a, l, ip)

    def zu_one(case, R):
        set_cfg(BASECFG)
        op, a, l, ip = case
        w, u, v = zs()
        u.set(a)
        out = u if ip else w
        if not ip:
            w.set(3, alloc=1)
        (zmul_ui if op == "mul_ui" else zmul_si)(out.p, u.p, l)
        e = a * l
        g = out.get()
        if g != e:
            R.fail("mpz_" + op, "%x * %d: got %x expected %x" % (a, l, g, e))
        m = out.wf()
        if m:
            R.fail("mpz_" + op, "ill-formed: " + m)
        if not ip and u.get() != a:
            R.fail("mpz_" + op, "input modified")
        return (op, ip, al.sgn(a), al.sgn(l), al.nl(abs(a)), al.nl(abs(e)))

    sp.append(Space("mpz_mul_ui_si", list(range(len(ZV + ZBIG))), zu_cases, zu_one, "mpz_mul_ui / mpz_mul_si: values x limb alphabet incl. LONG_MIN, in place and separate"))

    def za_cases(blk):
        op, i = blk
        w0 = ZV2[i]
        if op in ("addmul", "submul"):
            for a in ZV2:
                for b in ZV2:
                    yield (op, w0, a, b, 0)
            for a in ZV2:
                yield (op, w0, a, a, 1)     # u == v (same object)
                yield (op, w0, w0, a, 2)    # w == u
                yield (op, w0, a, w0, 3)    # w == v
            yield (op, w0, w0, w0, 4)       # all same
            for a in ZBIG[:8]:
                for b in ZBIG[:8]:
                    yield (op, w0, a, b, 0)
                    yield (op, a * b, a, b, 0)          # full cancellation for submul / doubling
                    yield (op, -a * b, a, b, 0)
                    yield (op, a * b + w0, a, b, 0)
        else:
            for a in ZV:
                for l in UI:
                    yield (op, w0, a, l, 0)
            for l in UI:
                yield (op, w0, w0, l, 2)
                for a in ZV2[1:9]:
                    yield (op, a * l, a, l, 0)
                    yield (op, -a * l, a, l, 0)
                    yield (op, -a * l + 1, a, l, 0)

    def za_one(case, R):
        set_cfg(BASECFG)
        op, w0, a, b, mode = case
        w, u, v = zs()
        w.set(w0)
        u.set(a)
        sign = 1 if op.startswith("add") else -1
        if op in ("addmul", "submul"):
            v.set(b)
            f = zam[op]
            if mode == 0:
                f(w.p, u.p, v.p)
            elif mode == 1:
                f(w.p, u.p, u.p)
            elif mode == 2:
                f(w.p, w.p, v.p)
            elif mode == 3:
                f(w.p, u.p, w.p)
            else:
                f(w.p, w.p, w.p)
            e = w0 + sign * a * b
        else:
            f = zamu[op]
            if mode == 2:
                f(w.p, w.p, b)
            else:
                f(w.p, u.p, b)
            e = w0 + sign * a * b
        g = w.get()
        if g != e:
            R.fail("mpz_" + op, "w=%x u=%x v=%x mode %d: got %x expected %x" % (w0, a, b, mode, g, e))
        m = w.wf()
        if m:
            R.fail("mpz_" + op, "ill-formed: " + m)
        if mode in (0, 1, 3) and u.get() != a:
            R.fail("mpz_" + op, "input u modified")
        return (op, mode, al.sgn(w0), al.sgn(a), al.sgn(b), al.nl(abs(w0)), al.nl(abs(a)), al.nl(abs(b)) if op in ("addmul", "submul") else 0, al.nl(abs(e)), al.sgn(e))

    sp.append(Space("mpz_addmul_submul", [(op, i) for i in range(len(ZV2)) for op in ("addmul", "submul", "addmul_ui", "submul_ui")], za_cases, za_one,
                    "mpz_addmul/submul(_ui): accumulator x u x v over {0,+-EXH(L5)<=2 limbs} (_ui: u up to 3 limbs), alias modes, exact-cancellation cases"))
    return sp
