#!/usr/bin/env python3
"""Regenerate MANIFEST.json from the property modules that exist (keeps it valid at all times)."""
import json, os, sys, importlib
ROOT = os.path.dirname(os.path.dirname(os.path.abspath(__file__)))
sys.path.insert(0, ROOT)
props = [json.loads(l) for l in open(os.path.join(ROOT, "properties.jsonl"))]
checks, na = [], []
for p in props:
    pid = p["id"]
    if os.path.exists(os.path.join(ROOT, "mc", "props", pid + ".py")):
        m = importlib.import_module("mc.props." + pid)
        if getattr(m, "DISABLED", None):
            na.append({"property_id": pid, "reason": m.DISABLED})
            continue
        checks.append({
            "property_id": pid,
            "quick_cmd": "bin/check %s --tier quick" % pid,
            "thorough_cmd": "bin/check %s --tier thorough" % pid,
            "evidence_file": "evidence/%s.json" % pid,
            "replay_cmd_template": "bin/check %s --replay {path}" % pid,
            "engine": getattr(m, "ENGINE", "mc-explore"),
            "level_claimed": {"category": m.LEVEL, "text": getattr(m, "LEVEL_TEXT", m.RULE)[:1500], "design_ref": "DESIGN.md section 4, " + pid},
            "level_note": "; ".join(getattr(m, "ASSUMPTIONS", [])) or "Python int/Fraction reference model",
            "technique": getattr(m, "TECHNIQUE", "bounded-exhaustive enumeration of inputs on the real library (implementation-level model checking, no sampling) against a Python reference model"),
        })
    else:
        na.append({"property_id": pid, "reason": "check not built yet in this round (planned, see DESIGN.md section 4)"})
man = {
    "version": 1,
    "setup_cmd": "python3 -m mc.setup",
    "hooks": {"guard": "WBHART_MPIR_VERIF", "enable": "no source hooks are needed: checks build scratch copies of /repo's working tree with the tree's own configure switches (see DESIGN.md 2.1)",
              "baseline_off_cmd": "cd /repo && make check", "source_commits": [], "add_only": True},
    "engines": [
        {"name": "mc-explore", "path": "mc/explore.py", "serves_properties": [c["property_id"] for c in checks if c["engine"] == "mc-explore"],
         "kind_free_text": "sharded bounded-exhaustive enumerator driving the real libmpir.so through ctypes, Python int/Fraction reference model"},
    ],
    "checks": checks,
    "not_applicable": na,
    "notes": "See DESIGN.md. Every check rebuilds the variants it needs from /repo's working tree (content-hash cache under /tmp/mpir-verif-cache, rebuilt when missing).",
}
extra = {}
for c in checks:
    if c["engine"] != "mc-explore":
        extra.setdefault(c["engine"], []).append(c["property_id"])
for e, ps in extra.items():
    man["engines"].append({"name": e, "path": "mc/props", "serves_properties": ps, "kind_free_text": e})
json.dump(man, open(os.path.join(ROOT, "MANIFEST.json"), "w"), indent=1)
print("checks:", [c["property_id"] for c in checks], "not claimed:", [n["property_id"] for n in na])
