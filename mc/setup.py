"""setup: build the variants every check shares and self-test the reference model (offline, files on disk only)."""
import sys, os, time
from . import build

def main():
    t = time.time()
    for v in ("pin",):
        build.get(v)
    try:
        from . import selftest
        selftest.main()
    except ImportError:
        pass
    print("setup ok in %.0fs" % (time.time() - t))

if __name__ == "__main__":
    main()
