"""Run one (property, tier, variant) pass in this process tree and dump the result as JSON.
usage: python3 -m mc.runpass <ID> <tier> <variant> <out.json> <deadline_s> [--replay <file>]"""
import sys, os, json, time, importlib, traceback

from . import explore, lib


def main():
    pid, tier, variant, out, deadline_s = sys.argv[1], sys.argv[2], sys.argv[3], sys.argv[4], float(sys.argv[5])
    replay = None
    if "--replay" in sys.argv:
        replay = json.load(open(sys.argv[sys.argv.index("--replay") + 1]))
    seed = int(os.environ.get("VERIF_SEED", "0") or 0)
    mod = importlib.import_module("mc.props." + pid)
    t0 = time.time()
    if hasattr(mod, "load"):
        mod.load(variant)
    else:
        lib.load(variant)
    spaces = mod.spaces(tier, variant, seed)
    if replay is not None:
        # re-execute exactly one case, twice, and compare the observations
        sp = [s for s in spaces if s.name == replay["space"]]
        if not sp:
            # the space may only exist in another tier
            for t in ("thorough", "quick"):
                sp = [s for s in mod.spaces(t, variant, seed) if s.name == replay["space"]]
                if sp:
                    break
        sp = sp[0]
        case = explore.parse_case(replay["case"])
        obs = []
        for rep in range(2):
            R = explore.Rec()
            R.space, R.block, R.case = sp.name, replay.get("block"), case
            sg = sp.one(case, R)
            obs.append((explore.crepr(sg), [(f["kind"], f["msg"]) for f in R.fails]))
        res = {"replay": True, "deterministic": obs[0] == obs[1], "violated": bool(obs[0][1]), "observations": obs}
        json.dump(res, open(out, "w"), indent=1)
        return
    stall_s = 240 if tier == "quick" else 600
    res = explore.run_spaces(spaces, deadline_s, stall_s=stall_s)
    # pin down crashes: re-run the block alone in slow mode (the first few; the rest are reported as not isolated and make the
    # pass non-exhaustive, they are never dropped)
    confirmed = []
    for ci, c in enumerate(res["crashes"]):
        if ci >= 3 and confirmed:
            res["errors"].append("worker crash in space %s block %r (exit %r) not re-run in isolation: %d crashes already pinned down" % (
                spaces[c["space_idx"]].name, spaces[c["space_idx"]].blocks[c["block_idx"]], c["exit"], len(confirmed)))
            continue
        sp = spaces[c["space_idx"]]
        blk = sp.blocks[c["block_idx"]]
        one = explore.Space(sp.name, [blk], sp.cases, sp.one)
        save = explore.NWORK
        explore.NWORK = 1
        try:
            r2 = explore.run_spaces([one], max(120.0, deadline_s), slow=True, stall_s=2 * stall_s)
        finally:
            explore.NWORK = save
        if r2["crashes"] and r2["crashes"][0]["exit"] == -4 and variant.startswith("cpu-"):
            # SIGILL inside a build for ANOTHER cpu: a kernel of that path needs an instruction-set extension this host lacks.
            # The property excludes such kernels ("not executable here"); recorded, pass marked non-exhaustive, not a violation.
            res["errors"].append("not executable on this host (SIGILL) under %s: space %s block %r case %s" % (
                variant, sp.name, blk, r2["crashes"][0]["case"]))
        elif r2["crashes"]:
            c2 = r2["crashes"][0]
            confirmed.append({"space": sp.name, "block": explore.crepr(blk), "case": c2["case"], "kind": "crash",
                              "msg": "worker died (%s) while executing this case; reproduced in isolation" % (c2["exit"],)})
        else:
            res["errors"].append("worker crash in space %s block %r not reproduced in isolation (exit %r)" % (sp.name, blk, c["exit"]))
            # the block did complete on the re-run: account for it
            res["n"] += r2["n"]; res["fails"] += r2["fails"]; res["nfail"] += r2["nfail"]
    res["fails"] += confirmed
    res["nfail"] += len(confirmed)
    outd = {
        "variant": variant, "n": res["n"], "distinct": len(res["sigs"]), "nfail": res["nfail"], "fails": res["fails"],
        "samples": res["samples"], "blocks": res["blocks"], "total_blocks": res["total_blocks"],
        "per_space": res["per_space"], "extra": res["extra"], "errors": res["errors"],
        "exhaustive": res["blocks"] == res["total_blocks"] and not res["errors"],
        "wall_s": round(time.time() - t0, 2),
        "spaces": [{"name": s.name, "blocks": len(s.blocks), "doc": s.doc} for s in spaces],
        "sig_sample": [explore.crepr(x) for x in list(res["sigs"])[:5]],
    }
    if hasattr(mod, "post"):
        outd["post"] = mod.post(tier, variant)
    json.dump(outd, open(out, "w"), indent=1)


if __name__ == "__main__":
    try:
        main()
    except Exception:
        traceback.print_exc()
        sys.exit(3)
