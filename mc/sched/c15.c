/* C15 engine: preemption-bounded exhaustive schedule exploration of real MPIR calls in real threads, with a write monitor.
 *
 *  - T threads (2 or 3) each run one or two operations from a menu of reentrant MPIR calls; they read the SAME source objects
 *    and write thread-private destinations.
 *  - Shared source objects and the writable static segment (.data/.bss) of libmpir.so are mapped read-only while operations run:
 *    any write to them by library code is trapped (SIGSEGV) and reported - it is shared mutable state the manual does not list.
 *    With no such write, threads only touch thread-private memory (stack, blocks from the installed allocator), every
 *    interleaving is Mazurkiewicz-equivalent to the serial run, and the explored schedules confirm it on the real code.
 *  - Scheduling points: every call of the installed allocator triple and operation boundaries.  Only one thread runs at a time;
 *    the explorer enumerates every schedule with at most PB preemptions (iterative bounding, canonical order "running thread
 *    first"), replaying a recorded prefix and diverging at one point.
 *  - Oracle: each thread's result digest equals the digest of its solo run; every execution terminates (deadlock = no enabled
 *    thread is impossible here, a step horizon catches livelock).
 *  - Free-running mode (no scheduler, default allocator) is used by the ThreadSanitizer build of the same bodies.
 */
#define _GNU_SOURCE
#include <stdio.h>
#include <stdlib.h>
#include <string.h>
#include <stdint.h>
#include <signal.h>
#include <unistd.h>
#include <pthread.h>
#include <semaphore.h>
#include <link.h>
#include <ucontext.h>
#include <sys/mman.h>
#include "mpir.h"

#define MAXT 3
#define MAXPOINTS 2048
#define NSRC 12

/* ------------------------------------------------------------------ shared read-only sources */
static mpz_t *SRC;            /* in its own mapping, protected after initialisation */
static mp_limb_t *SRCL;
static size_t srcl_cap, srcl_used;
static char *SRCSTR[3];
static void *srcmap; static size_t srcmap_len;

static mp_limb_t *src_limbs (size_t n) { mp_limb_t *p = SRCL + srcl_used; srcl_used += n; if (srcl_used > srcl_cap) abort (); return p; }
static void src_set (int i, mpz_srcptr v)
{
  size_t n = mpz_size (v); mp_limb_t *p = src_limbs (n ? n : 1);
  memcpy (p, v->_mp_d, n * sizeof (mp_limb_t));
  SRC[i]->_mp_d = p; SRC[i]->_mp_size = v->_mp_size; SRC[i]->_mp_alloc = n ? n : 1;
}
static void make_sources (void)
{
  size_t len = 64u << 20; int i; mpz_t t; gmp_randstate_t rs;
  srcmap = mmap (0, len, PROT_READ | PROT_WRITE, MAP_PRIVATE | MAP_ANONYMOUS, -1, 0); srcmap_len = len;
  SRC = srcmap; SRCL = (mp_limb_t *) ((char *) srcmap + 4096); srcl_cap = (len - 8192 - (1 << 20)) / sizeof (mp_limb_t);
  mpz_init (t); gmp_randinit_mt (rs); gmp_randseed_ui (rs, 20260929);
  for (i = 0; i < NSRC; i++)
    {
      static const int bits[NSRC] = { 100, 700, 64 * 300, 64 * 310, 64 * 1500, 64 * 1490, 64 * 4200, 64 * 4100, 64 * 40, 64 * 41, 63, 64 * 3 };
      mpz_urandomb (t, rs, bits[i]); mpz_setbit (t, bits[i] - 1); mpz_setbit (t, 0);
      if (i == 10) mpz_set_ui (t, 1000003);
      src_set (i, t);
    }
  /* decimal strings above the precomputed-power threshold */
  for (i = 0; i < 3; i++)
    {
      char *s = (char *) srcmap + len - (1 << 20) + i * 8000; int j;
      for (j = 0; j < 3000 + 200 * i; j++) s[j] = '0' + (j * 7 + i * 3 + 1) % 10;
      s[0] = '1' + i; s[j] = 0; SRCSTR[i] = s;
    }
  mpz_clear (t); gmp_randclear (rs);
}

/* ------------------------------------------------------------------ write monitor */
static struct { uintptr_t lo, hi; } prot[8]; static int nprot;
static volatile int monitoring;
static volatile long write_traps; static uintptr_t trap_addr[16], trap_rip[16];
static int phdr_cb (struct dl_phdr_info *info, size_t sz, void *d)
{
  int i;
  if (!info->dlpi_name || !strstr (info->dlpi_name, "libmpir")) return 0;
  for (i = 0; i < info->dlpi_phnum; i++)
    if (info->dlpi_phdr[i].p_type == PT_LOAD && (info->dlpi_phdr[i].p_flags & PF_W))
      {
        uintptr_t a = info->dlpi_addr + info->dlpi_phdr[i].p_vaddr, b = a + info->dlpi_phdr[i].p_memsz;
        prot[nprot].lo = a & ~(uintptr_t) 4095; prot[nprot].hi = (b + 4095) & ~(uintptr_t) 4095; nprot++;
      }
  return 0;
}
static void set_protection (int on)
{
  int i;
  for (i = 0; i < nprot; i++) mprotect ((void *) prot[i].lo, prot[i].hi - prot[i].lo, on ? PROT_READ : PROT_READ | PROT_WRITE);
  mprotect (srcmap, srcmap_len, on ? PROT_READ : PROT_READ | PROT_WRITE);
  monitoring = on;
}
static uintptr_t stepping_page;
static void on_segv (int sig, siginfo_t *si, void *uc_)
{
  ucontext_t *uc = uc_; uintptr_t a = (uintptr_t) si->si_addr; int i, inside = 0;
  for (i = 0; i < nprot; i++) if (a >= prot[i].lo && a < prot[i].hi) inside = 1;
  if (a >= (uintptr_t) srcmap && a < (uintptr_t) srcmap + srcmap_len) inside = 2;
  if (!monitoring || !inside) { signal (SIGSEGV, SIG_DFL); return; }
  if (write_traps < 16) { trap_addr[write_traps] = a; trap_rip[write_traps] = uc->uc_mcontext.gregs[REG_RIP]; }
  write_traps++;
  /* let the instruction proceed: open the page, single-step, re-protect in the SIGTRAP handler */
  stepping_page = a & ~(uintptr_t) 4095;
  mprotect ((void *) stepping_page, 4096, PROT_READ | PROT_WRITE);
  uc->uc_mcontext.gregs[REG_EFL] |= 0x100;
}
static void on_trap (int sig, siginfo_t *si, void *uc_)
{
  ucontext_t *uc = uc_;
  if (stepping_page) { mprotect ((void *) stepping_page, 4096, PROT_READ); stepping_page = 0; }
  uc->uc_mcontext.gregs[REG_EFL] &= ~0x100;
}

/* ------------------------------------------------------------------ scheduler */
static int T;                      /* threads in this execution */
static int sched_on;               /* 0 = free running */
static sem_t sem[MAXT], done_sem;
static volatile int finished[MAXT];
static int running;
static int prefix[MAXPOINTS], prefix_len;
static struct { unsigned char enabled, running, chosen, running_enabled; } points[MAXPOINTS];
static int npoints, diverged;
static __thread int my_id = -1;
static long total_points;

static int choose (int me, int me_enabled)
{
  int i, mask = 0, c = -1;
  for (i = 0; i < T; i++) if (!finished[i]) mask |= 1 << i;
  if (mask == 0) return -1;
  if (npoints >= MAXPOINTS) { fprintf (stderr, "horizon exceeded (livelock?)\n"); abort (); }
  if (npoints < prefix_len)
    {
      c = prefix[npoints];
      if (!(mask & (1 << c))) { diverged = 1; c = -1; }
    }
  if (c < 0)
    {
      if (me_enabled) c = me;                                   /* default: keep running */
      else for (i = 0; i < T; i++) if (mask & (1 << i)) { c = i; break; }
    }
  points[npoints].enabled = mask; points[npoints].running = me; points[npoints].chosen = c; points[npoints].running_enabled = me_enabled;
  npoints++; total_points++;
  return c;
}
static __thread unsigned long alloc_calls;
static int alloc_point_wanted (void)
{
  unsigned long k = ++alloc_calls;
  return k <= 6 || (k & (k - 1)) == 0;
}
static void sched_point (void)
{
  int me = my_id, next;
  if (!sched_on || me < 0) return;
  next = choose (me, 1);
  if (next != me) { running = next; sem_post (&sem[next]); sem_wait (&sem[me]); }
}
static void thread_exit_point (void)
{
  int me = my_id, next;
  if (!sched_on) return;
  finished[me] = 1;
  next = choose (me, 0);
  if (next >= 0) { running = next; sem_post (&sem[next]); }
  else sem_post (&done_sem);
}

/* allocator: scheduling points + size contract */
static void *al_alloc (size_t n) { size_t *p; if (alloc_point_wanted ()) sched_point (); p = malloc (n + 16); p[0] = n; p[1] = 0x5AFE; return p + 2; }
static void *al_realloc (void *q, size_t o, size_t n) { size_t *p = (size_t *) q - 2; if (alloc_point_wanted ()) sched_point (); if (p[0] != o || p[1] != 0x5AFE) { fprintf (stderr, "allocator contract: realloc old size %zu, block has %zu\n", o, p[0]); abort (); } p = realloc (p, n + 16); p[0] = n; return p + 2; }
static void al_free (void *q, size_t o) { size_t *p = (size_t *) q - 2; if (alloc_point_wanted ()) sched_point (); if (p[0] != o || p[1] != 0x5AFE) { fprintf (stderr, "allocator contract: free size %zu, block has %zu\n", o, p[0]); abort (); } p[1] = 0xDEAD; free (p); }

/* ------------------------------------------------------------------ operations */
typedef uint64_t (*opfn) (int v);          /* v = variant 0..2 (selects operands); returns a digest of every result */
static uint64_t fnv (uint64_t h, const void *p, size_t n) { const unsigned char *c = p; while (n--) { h ^= *c++; h *= 1099511628211ULL; } return h; }
static uint64_t dz (uint64_t h, mpz_srcptr z) { long s = z->_mp_size; h = fnv (h, &s, sizeof s); return fnv (h, z->_mp_d, mpz_size (z) * sizeof (mp_limb_t)); }
#define H0 1469598103934665603ULL
#define S(i) SRC[i]

static uint64_t op_mul_small (int v) { mpz_t r; uint64_t h; mpz_init (r); mpz_mul (r, S(v), S(1)); mpz_mul (r, r, S(8 + (v & 1))); h = dz (H0, r); mpz_clear (r); return h; }
static uint64_t op_mul_toom (int v) { mpz_t r; uint64_t h; mpz_init (r); mpz_mul (r, S(2 + (v & 1)), S(3)); h = dz (H0, r); mpz_mul (r, S(4), S(5 - (v & 1))); h = dz (h, r); mpz_clear (r); return h; }
static uint64_t op_mul_fft (int v) { mpz_t r; uint64_t h; mpz_init (r); mpz_mul (r, S(6 + (v & 1)), S(7)); h = dz (H0, r); mpz_clear (r); return h; }
static uint64_t op_sqr (int v) { mpz_t r; uint64_t h; mpz_init (r); mpz_mul (r, S(4 + (v & 1)), S(4 + (v & 1))); h = dz (H0, r); mpz_clear (r); return h; }
static uint64_t op_tdiv (int v) { mpz_t q, r; uint64_t h; mpz_init (q); mpz_init (r); mpz_tdiv_qr (q, r, S(4 + (v & 1)), S(2 + (v >> 1))); h = dz (dz (H0, q), r); mpz_fdiv_qr (q, r, S(6), S(4 + (v & 1))); h = dz (dz (h, q), r); mpz_clear (q); mpz_clear (r); return h; }
static uint64_t op_gcdext (int v) { mpz_t g, s, t; uint64_t h; mpz_init (g); mpz_init (s); mpz_init (t); mpz_gcdext (g, s, t, S(2 + (v & 1)), S(3 - (v & 1))); h = dz (dz (dz (H0, g), s), t); mpz_gcd (g, S(4), S(5)); h = dz (h, g); mpz_clear (g); mpz_clear (s); mpz_clear (t); return h; }
static uint64_t op_powm (int v) { mpz_t r; uint64_t h; mpz_init (r); mpz_powm (r, S(1), S(0), S(8 + (v & 1))); h = dz (H0, r); mpz_powm_ui (r, S(8), 1000 + v, S(9)); h = dz (h, r); mpz_clear (r); return h; }
static uint64_t op_get_str (int v) { char *s = mpz_get_str (0, 10, S(2 + (v & 1))); uint64_t h = fnv (H0, s, strlen (s)); void (*fr) (void *, size_t); mp_get_memory_functions (0, 0, &fr); fr (s, strlen (s) + 1); s = mpz_get_str (0, 16 + v, S(8)); h = fnv (h, s, strlen (s)); fr (s, strlen (s) + 1); return h; }
static uint64_t op_set_str (int v) { mpz_t r; uint64_t h; mpz_init (r); mpz_set_str (r, SRCSTR[v % 3], 10); h = dz (H0, r); mpz_set_str (r, SRCSTR[(v + 1) % 3] + 2900, 10); h = dz (h, r); mpz_clear (r); return h; }
static uint64_t op_fac (int v) { mpz_t r; uint64_t h; mpz_init (r); mpz_fac_ui (r, 1200 + 37 * v); h = dz (H0, r); mpz_2fac_ui (r, 301 + v); h = dz (h, r); mpz_primorial_ui (r, 2000 + v); h = dz (h, r); mpz_clear (r); return h; }
static uint64_t op_fib (int v) { mpz_t r, s; uint64_t h; mpz_init (r); mpz_init (s); mpz_fib_ui (r, 3000 + v); h = dz (H0, r); mpz_lucnum2_ui (r, s, 777 + v); h = dz (dz (h, r), s); mpz_fib2_ui (r, s, 90 + v); h = dz (dz (h, r), s); mpz_clear (r); mpz_clear (s); return h; }
static uint64_t op_bin (int v) { mpz_t r; uint64_t h; mpz_init (r); mpz_bin_uiui (r, 3000 + v, 900); h = dz (H0, r); mpz_bin_uiui (r, 60 + v, 30); h = dz (h, r); mpz_mfac_uiui (r, 900 + v, 3); h = dz (h, r); mpz_clear (r); return h; }
static uint64_t op_nextprime (int v) { mpz_t r; uint64_t h; mpz_init (r); mpz_nextprime (r, S(0)); h = dz (H0, r); mpz_add_ui (r, S(10), 1000 * v); mpz_nextprime (r, r); h = dz (h, r); mpz_clear (r); return h; }
static uint64_t op_pprime (int v) { int a = mpz_probab_prime_p (S(10), 10), b = mpz_probab_prime_p (S(0), 5 + v), c = mpz_probab_prime_p (S(11), 5); uint64_t h = H0; h = fnv (h, &a, sizeof a); h = fnv (h, &b, sizeof b); return fnv (h, &c, sizeof c); }
static uint64_t op_likely (int v) { gmp_randstate_t rs; mpz_t r; int a, b; uint64_t h = H0; gmp_randinit_default (rs); gmp_randseed_ui (rs, 99 + v); mpz_init (r); a = mpz_likely_prime_p (S(10), rs, 0); b = mpz_probable_prime_p (S(0), rs, 10, 0); mpz_next_prime_candidate (r, S(0), rs); h = fnv (h, &a, sizeof a); h = fnv (h, &b, sizeof b); h = dz (h, r); mpz_clear (r); gmp_randclear (rs); return h; }
static uint64_t op_rand_mt (int v) { gmp_randstate_t rs; mpz_t r; uint64_t h = H0; int i; gmp_randinit_mt (rs); gmp_randseed_ui (rs, 5 + v); mpz_init (r); for (i = 0; i < 6; i++) { mpz_urandomb (r, rs, 700 + i); h = dz (h, r); mpz_urandomm (r, rs, S(1)); h = dz (h, r); mpz_rrandomb (r, rs, 300); h = dz (h, r); } { unsigned long u = gmp_urandomm_ui (rs, 1000003); h = fnv (h, &u, sizeof u); } mpz_clear (r); gmp_randclear (rs); return h; }
static uint64_t op_rand_lc (int v) { gmp_randstate_t rs, r2; mpz_t r; uint64_t h = H0; int i; gmp_randinit_lc_2exp_size (rs, 64 + 32 * (v & 1)); gmp_randseed (rs, S(0)); gmp_randinit_set (r2, rs); mpz_init (r); for (i = 0; i < 6; i++) { mpz_urandomb (r, rs, 400 + i); h = dz (h, r); mpz_urandomb (r, r2, 400 + i); h = dz (h, r); } mpz_clear (r); gmp_randclear (rs); gmp_randclear (r2); return h; }
static uint64_t op_printf (int v) { char buf[600]; char *p; int n; uint64_t h; void (*fr) (void *, size_t); n = gmp_snprintf (buf, sizeof buf, "%Zd|%#40Zx|%d|%s", S(0), S(11), v, "x"); h = fnv (H0, buf, strlen (buf)); h = fnv (h, &n, sizeof n); n = gmp_asprintf (&p, "%Zx/%Zo", S(1), S(8 + (v & 1))); h = fnv (h, p, n); mp_get_memory_functions (0, 0, &fr); fr (p, n + 1); return h; }
static uint64_t op_scanf (int v) { mpz_t a, b; mpq_t q; int n; uint64_t h; static const char *in[3] = { "123456789012345678901234567890 ff 22/7", "-987654321098765432109876543210 1F 355/113", "31415926535897932384626433832795 abc -1/3" }; mpz_init (a); mpz_init (b); mpq_init (q); n = gmp_sscanf (in[v % 3], "%Zd %Zx %Qd", a, b, q); h = fnv (H0, &n, sizeof n); h = dz (dz (h, a), b); h = dz (dz (h, mpq_numref (q)), mpq_denref (q)); mpz_clear (a); mpz_clear (b); mpq_clear (q); return h; }
static uint64_t op_mpf (int v) { mpf_t f, g; uint64_t h; mp_exp_t e; char *s; void (*fr) (void *, size_t); mpf_init2 (f, 512); mpf_init2 (g, 512); mpf_set_z (f, S(1)); mpf_sqrt (g, f); mpf_div (f, g, f); mpf_add_ui (f, f, 3 + v); mpf_mul (f, f, g); s = mpf_get_str (0, &e, 10, 60, f); h = fnv (H0, s, strlen (s)); h = fnv (h, &e, sizeof e); mp_get_memory_functions (0, 0, &fr); fr (s, strlen (s) + 1); mpf_clear (f); mpf_clear (g); return h; }
static uint64_t op_mpq (int v) { mpq_t a, b, c; uint64_t h; mpq_init (a); mpq_init (b); mpq_init (c); mpq_set_z (a, S(1)); mpq_set_z (b, S(8 + (v & 1))); mpq_div (c, a, b); mpq_add (c, c, a); mpq_mul (c, c, c); mpq_inv (c, c); h = dz (dz (H0, mpq_numref (c)), mpq_denref (c)); mpq_clear (a); mpq_clear (b); mpq_clear (c); return h; }
static uint64_t op_mpn (int v) { mp_size_t un = 300, vn = 120 + v; mp_limb_t *r = malloc ((un + vn) * sizeof (mp_limb_t)); uint64_t h; mpn_mul (r, S(2)->_mp_d, un, S(3)->_mp_d, vn); h = fnv (H0, r, (un + vn) * sizeof (mp_limb_t)); { mp_limb_t q[400], rem[200]; mpn_tdiv_qr (q, rem, 0, S(2)->_mp_d, 300, S(8)->_mp_d, 40); h = fnv (h, q, 261 * sizeof (mp_limb_t)); h = fnv (h, rem, 40 * sizeof (mp_limb_t)); } free (r); return h; }
static uint64_t op_roots (int v) { mpz_t r, s; uint64_t h; int e; mpz_init (r); mpz_init (s); mpz_sqrtrem (r, s, S(2 + (v & 1))); h = dz (dz (H0, r), s); e = mpz_root (r, S(4), 3 + v); h = dz (h, r); h = fnv (h, &e, sizeof e); e = mpz_perfect_power_p (S(1)); h = fnv (h, &e, sizeof e); mpz_clear (r); mpz_clear (s); return h; }
static uint64_t op_jacobi (int v) { int a = mpz_jacobi (S(2 + (v & 1)), S(3)), b = mpz_kronecker_ui (S(1), 1000003), c = mpz_legendre (S(0), S(10)); uint64_t h = H0; h = fnv (h, &a, sizeof a); h = fnv (h, &b, sizeof b); return fnv (h, &c, sizeof c); }
static uint64_t op_misc (int v) { mpz_t r; uint64_t h; char buf[64]; size_t cnt; unsigned long m; mpz_init (r); m = mpz_remove (r, S(8), S(11)); h = dz (H0, r); h = fnv (h, &m, sizeof m); mpz_export (buf, &cnt, 1, 4, 1 - 2 * (v & 1), 3, S(0)); h = fnv (h, buf, cnt * 4); mpz_import (r, cnt, 1, 4, 1 - 2 * (v & 1), 3, buf); h = dz (h, r); mpz_lcm (r, S(1), S(8)); h = dz (h, r); mpz_invert (r, S(10), S(1)); h = dz (h, r); mpz_clear (r); return h; }

/* more menu entries: one per further code path that could hide a static buffer (size regimes, bases, conversions) */
static uint64_t op_mul_chunked (int v) { mpz_t r; uint64_t h; mpz_init (r); mpz_mul (r, S(4 + (v & 1)), S(1)); h = dz (H0, r); mpz_mul (r, S(0), S(6)); h = dz (h, r); mpz_clear (r); return h; }   /* un > 500, vn < KARATSUBA: chunked schoolbook */
static uint64_t op_mul_unbalanced (int v) { mpz_t r; uint64_t h; mpz_init (r); mpz_mul (r, S(4), S(2 + (v & 1))); h = dz (H0, r); mpz_mul (r, S(6), S(4 + (v & 1))); h = dz (h, r); mpz_mul (r, S(2), S(8)); h = dz (h, r); mpz_clear (r); return h; }   /* toom42/32/53, unbalanced FFT */
static uint64_t op_mul_ui_addmul (int v) { mpz_t r; uint64_t h; mpz_init (r); mpz_mul_ui (r, S(2), 12345 + v); mpz_addmul (r, S(8), S(9)); mpz_submul_ui (r, S(3), 77); mpz_mul_2exp (r, r, 65 + v); mpz_mul_si (r, r, -3); h = dz (H0, r); mpz_clear (r); return h; }
static uint64_t op_div_big (int v) { mpz_t q, r; uint64_t h; mpz_init (q); mpz_init (r); mpz_tdiv_qr (q, r, S(6 + (v & 1)), S(4)); h = dz (dz (H0, q), r); mpz_cdiv_q (q, S(6), S(2)); h = dz (h, q); mpz_mod (r, S(4), S(8)); h = dz (h, r); mpz_divexact (q, S(2), S(2)); h = dz (h, q); { unsigned long u = mpz_fdiv_ui (S(4), 1000003); h = fnv (h, &u, sizeof u); } mpz_clear (q); mpz_clear (r); return h; }
static uint64_t op_str_bases (int v) { static const int bs[3] = { 3, 16, 62 }; char *s = mpz_get_str (0, bs[v % 3], S(2)); uint64_t h = fnv (H0, s, strlen (s)); mpz_t r; void (*fr) (void *, size_t); mpz_init (r); mpz_set_str (r, s, bs[v % 3]); h = dz (h, r); mp_get_memory_functions (0, 0, &fr); fr (s, strlen (s) + 1); s = mpz_get_str (0, -36, S(8)); h = fnv (h, s, strlen (s)); fr (s, strlen (s) + 1); { size_t n = mpz_sizeinbase (S(4), 10); h = fnv (h, &n, sizeof n); } mpz_clear (r); return h; }
static uint64_t op_printf_float (int v) { char buf[400]; mpf_t f; int n; uint64_t h; mpf_init2 (f, 256); mpf_set_z (f, S(0)); mpf_div_ui (f, f, 7 + v); n = gmp_snprintf (buf, sizeof buf, "%.12Fe|%Fg|%.5Ff|%Fa", f, f, f, f); h = fnv (H0, buf, strlen (buf)); h = fnv (h, &n, sizeof n); mpf_mul_2exp (f, f, 300 + v); mpf_ui_div (f, 1, f); n = gmp_snprintf (buf, sizeof buf, "%30.20Fe|%FE|%#Fg", f, f, f); h = fnv (h, buf, strlen (buf)); mpf_clear (f); return h; }
static uint64_t op_mpf_more (int v) { mpf_t a, b; mpz_t z; mpq_t q; uint64_t h; double d; mp_exp_t e; char *s; void (*fr) (void *, size_t); mpf_init2 (a, 300); mpf_init2 (b, 300); mpz_init (z); mpq_init (q); mpf_set_str (a, "3.14159265358979323846264338327950288e10", 10); mpf_set_d (b, 1.5 + v); mpf_sub (a, a, b); mpf_mul (a, a, a); mpf_ui_sub (b, 7, a); mpf_floor (b, b); mpf_set_q (b, q); mpf_add_ui (a, a, 5); d = mpf_get_d (a); h = fnv (H0, &d, sizeof d); mpz_set_f (z, a); h = dz (h, z); s = mpf_get_str (0, &e, 16, 0, a); h = fnv (h, s, strlen (s)); mp_get_memory_functions (0, 0, &fr); fr (s, strlen (s) + 1); mpf_clear (a); mpf_clear (b); mpz_clear (z); mpq_clear (q); return h; }
static uint64_t op_mpq_more (int v) { mpq_t a, b; uint64_t h; char *s; void (*fr) (void *, size_t); double d; mpq_init (a); mpq_init (b); mpq_set_str (a, v ? "-123456789012345678901234567890/987654321987654321" : "22/7", 10); mpq_canonicalize (a); mpq_set_z (b, S(0)); mpq_sub (b, a, b); mpq_mul_2exp (b, b, 70); mpq_div_2exp (b, b, 3); d = mpq_get_d (b); h = fnv (H0, &d, sizeof d); s = mpq_get_str (0, 10, b); h = fnv (h, s, strlen (s)); mp_get_memory_functions (0, 0, &fr); fr (s, strlen (s) + 1); { int c = mpq_cmp (a, b); h = fnv (h, &c, sizeof c); } mpq_clear (a); mpq_clear (b); return h; }
static uint64_t op_streams (int v) { char mem[4096]; FILE *fp = fmemopen (mem, sizeof mem, "w+"); mpz_t r; mpq_t q; uint64_t h; size_t n; mpz_init (r); mpq_init (q); n = mpz_out_str (fp, 10, S(1)); fputc (' ', fp); n += mpz_out_raw (fp, S(8 + (v & 1))); fflush (fp); h = fnv (H0, mem, n + 1); rewind (fp); n = mpz_inp_str (r, fp, 10); h = dz (h, r); fgetc (fp); n = mpz_inp_raw (r, fp); h = dz (h, r); h = fnv (h, &n, sizeof n); fclose (fp); fp = fmemopen (mem, sizeof mem, "w+"); gmp_fprintf (fp, "%Zx %Qd", S(0), q); fflush (fp); rewind (fp); gmp_fscanf (fp, "%Zx", r); h = dz (h, r); fclose (fp); mpz_clear (r); mpq_clear (q); return h; }
static uint64_t op_bits (int v) { mpz_t r; uint64_t h; unsigned long u; mpz_init (r); mpz_and (r, S(2), S(3)); mpz_ior (r, r, S(8)); mpz_xor (r, r, S(4)); mpz_com (r, r); mpz_setbit (r, 100000 + v); mpz_clrbit (r, 5); mpz_combit (r, 64); h = dz (H0, r); u = mpz_popcount (S(4)); h = fnv (h, &u, sizeof u); u = mpz_hamdist (S(2), S(3)); h = fnv (h, &u, sizeof u); u = mpz_scan1 (S(4), 1000 + v); h = fnv (h, &u, sizeof u); u = mpz_scan0 (S(4), 77); h = fnv (h, &u, sizeof u); mpz_clear (r); return h; }
static uint64_t op_sqrt_big (int v) { mpz_t r, s; uint64_t h; int e; mpz_init (r); mpz_init (s); mpz_sqrtrem (r, s, S(4 + (v & 1))); h = dz (dz (H0, r), s); mpz_rootrem (r, s, S(2), 5 + v); h = dz (dz (h, r), s); e = mpz_perfect_square_p (S(2)); h = fnv (h, &e, sizeof e); mpz_pow_ui (r, S(0), 17 + v); h = dz (h, r); mpz_ui_pow_ui (r, 3 + v, 500); h = dz (h, r); mpz_clear (r); mpz_clear (s); return h; }
static uint64_t op_gcd_big (int v) { mpz_t g, s; uint64_t h; int j; mpz_init (g); mpz_init (s); mpz_gcd (g, S(4), S(5 - (v & 1))); h = dz (H0, g); mpz_gcdext (g, s, 0, S(4), S(2)); h = dz (dz (h, g), s); mpz_invert (g, S(3), S(5)); h = dz (h, g); j = mpz_jacobi (S(4), S(5)); h = fnv (h, &j, sizeof j); { unsigned long u = mpz_gcd_ui (0, S(2), 360360); h = fnv (h, &u, sizeof u); } mpz_clear (g); mpz_clear (s); return h; }
static uint64_t op_powm_even (int v) { mpz_t r, m; uint64_t h; mpz_init (r); mpz_init (m); mpz_mul_2exp (m, S(8), 64 + v); mpz_powm (r, S(1), S(0), m); h = dz (H0, r); mpz_mul_2exp (m, S(9), 1); mpz_powm (r, S(0), S(11), m); h = dz (h, r); mpz_set (m, S(2)); mpz_powm_ui (r, S(3), 65537, m); h = dz (h, r); mpz_clear (r); mpz_clear (m); return h; }
static uint64_t op_rand_mpf_mpn (int v) { gmp_randstate_t rs; mpf_t f; mp_limb_t buf[40]; mpz_t r; uint64_t h = H0; int i; gmp_randinit_default (rs); gmp_randseed_ui (rs, 1234 + v); mpf_init2 (f, 256); mpz_init (r); for (i = 0; i < 4; i++) { mpf_urandomb (f, rs, 200); h = fnv (h, f->_mp_d, (f->_mp_size < 0 ? -f->_mp_size : f->_mp_size) * sizeof (mp_limb_t)); mpn_urandomb (buf, rs, 40 * 64 - 3); h = fnv (h, buf, sizeof buf); mpn_rrandom (buf, rs, 20); h = fnv (h, buf, 20 * sizeof (mp_limb_t)); { unsigned long u = gmp_urandomb_ui (rs, 47); h = fnv (h, &u, sizeof u); } } mpf_clear (f); mpz_clear (r); gmp_randclear (rs); return h; }
static uint64_t op_conv (int v) { mpz_t r; uint64_t h; double d; long e; unsigned long u; mpz_init (r); d = mpz_get_d (S(2)); h = fnv (H0, &d, sizeof d); d = mpz_get_d_2exp (&e, S(4)); h = fnv (h, &d, sizeof d); h = fnv (h, &e, sizeof e); mpz_set_d (r, 1e300 + v); h = dz (h, r); u = mpz_get_ui (S(0)); h = fnv (h, &u, sizeof u); { int c = mpz_cmp_d (S(2), 1e40), f = mpz_fits_slong_p (S(10)), g = mpz_cmp (S(2), S(3)); h = fnv (h, &c, sizeof c); h = fnv (h, &f, sizeof f); h = fnv (h, &g, sizeof g); } mpz_set_si (r, -77 - v); mpz_abs (r, r); mpz_neg (r, r); mpz_add (r, r, S(4)); mpz_sub_ui (r, r, 5); h = dz (h, r); mpz_clear (r); return h; }

static const struct { const char *name; opfn f; } MENU[] = {
  { "mul_chunked_schoolbook", op_mul_chunked }, { "mul_unbalanced_toom_fft", op_mul_unbalanced }, { "mul_ui_addmul_submul", op_mul_ui_addmul }, { "div_big_cdiv_mod_divexact", op_div_big },
  { "str_bases_3_16_62", op_str_bases }, { "printf_float_e_g_f_a", op_printf_float }, { "mpf_set_str_sub_mul_get", op_mpf_more }, { "mpq_set_str_2exp_get_str", op_mpq_more },
  { "streams_out_inp_str_raw_fprintf_fscanf", op_streams }, { "bitwise_scan_popcount", op_bits }, { "sqrt_rootrem_pow", op_sqrt_big }, { "gcd_gcdext_invert_jacobi_big", op_gcd_big },
  { "powm_even_modulus", op_powm_even }, { "random_mpf_mpn_private", op_rand_mpf_mpn }, { "conversions_compare", op_conv },
  { "mul_small", op_mul_small }, { "mul_toom_heap_scratch", op_mul_toom }, { "mul_fft", op_mul_fft }, { "sqr", op_sqr }, { "tdiv_qr", op_tdiv }, { "gcdext", op_gcdext },
  { "powm", op_powm }, { "get_str", op_get_str }, { "set_str", op_set_str }, { "fac_2fac_primorial", op_fac }, { "fib_lucnum", op_fib }, { "bin_mfac", op_bin },
  { "nextprime", op_nextprime }, { "probab_prime_p", op_pprime }, { "likely_prime_private_state", op_likely }, { "random_mt_private", op_rand_mt }, { "random_lc_private_copy", op_rand_lc },
  { "snprintf_asprintf", op_printf }, { "sscanf", op_scanf }, { "mpf_sqrt_div_get_str", op_mpf }, { "mpq_arith", op_mpq }, { "mpn_mul_tdiv_qr", op_mpn }, { "roots_perfect_power", op_roots },
  { "jacobi_kronecker", op_jacobi }, { "remove_export_import_lcm_invert", op_misc },
};
#define NMENU ((int) (sizeof MENU / sizeof MENU[0]))

/* ------------------------------------------------------------------ executions */
static int plan[MAXT][2], plan_n[MAXT];
static uint64_t result[MAXT];
static void *body (void *arg)
{
  int me = (int) (intptr_t) arg, i; uint64_t h = H0;
  my_id = me;
  if (sched_on) sem_wait (&sem[me]);
  for (i = 0; i < plan_n[me]; i++)
    {
      uint64_t d;
      alloc_calls = 0;
      d = MENU[plan[me][i]].f (me);
      h = fnv (h, &d, sizeof d);
      if (i + 1 < plan_n[me]) sched_point ();
    }
  result[me] = h;
  thread_exit_point ();
  return 0;
}
static void run_once (void)
{
  pthread_t th[MAXT]; int i;
  npoints = 0; diverged = 0;
  for (i = 0; i < T; i++) { finished[i] = 0; sem_init (&sem[i], 0, 0); }
  sem_init (&done_sem, 0, 0);
  for (i = 0; i < T; i++) pthread_create (&th[i], 0, body, (void *) (intptr_t) i);
  if (sched_on)
    {
      int first;
      my_id = -1;
      /* the initial choice: which thread starts (all enabled, nobody running) */
      {
        int c = -1, mask = (1 << T) - 1;
        if (npoints < prefix_len) c = prefix[npoints];
        if (c < 0 || c >= T) c = 0;
        points[npoints].enabled = mask; points[npoints].running = 255; points[npoints].chosen = c; points[npoints].running_enabled = 0; npoints++; total_points++;
        first = c;
      }
      running = first; sem_post (&sem[first]);
      sem_wait (&done_sem);
    }
  for (i = 0; i < T; i++) pthread_join (th[i], 0);
}
static uint64_t solo[MAXT];
static long executions, violations, max_points, hit_bound_cap;
static int PB;
static void report_violation (const char *what)
{
  int i;
  violations++;
  printf ("VIOL %s T=%d plans", what, T);
  for (i = 0; i < T; i++) printf (" [%s%s%s]", MENU[plan[i][0]].name, plan_n[i] > 1 ? "," : "", plan_n[i] > 1 ? MENU[plan[i][1]].name : "");
  printf (" schedule");
  for (i = 0; i < npoints; i++) printf (" %d", points[i].chosen);
  printf ("\n");
}
static void explore (int plen)
{
  int i, alt, mypts, mychoices[MAXPOINTS];
  struct { unsigned char enabled, running, chosen, running_enabled; } mine[MAXPOINTS];
  prefix_len = plen;
  run_once ();
  executions++;
  if (npoints > max_points) max_points = npoints;
  if (diverged) report_violation ("replay-diverged");
  for (i = 0; i < T; i++) if (result[i] != solo[i]) { report_violation ("result-differs-from-sequential"); break; }
  mypts = npoints;
  memcpy (mine, points, sizeof (points[0]) * mypts);
  for (i = 0; i < mypts; i++) mychoices[i] = mine[i].chosen;
  for (i = plen; i < mypts; i++)
    {
      int cost = 0, j;
      for (j = 0; j < i; j++) if (mine[j].running_enabled && mine[j].chosen != mine[j].running) cost++;
      if (mine[i].running_enabled) cost++;          /* switching away from a runnable thread is a preemption */
      if (cost > PB) continue;
      for (alt = 0; alt < T; alt++)
        {
          if (alt == mine[i].chosen || !(mine[i].enabled & (1 << alt))) continue;
          memcpy (prefix, mychoices, sizeof (int) * i);
          prefix[i] = alt;
          if (executions > 200000) { hit_bound_cap = 1; return; }
          explore (i + 1);
        }
    }
}

int main (int argc, char **argv)
{
  int mode_free = 0, a, b, c, i, reps = 1, two_ops = 0, part = 0, nparts = 1, only_a = -1, only_b = -1;
  struct sigaction sa;
  T = 2; PB = 2;
  for (i = 1; i < argc; i++)
    {
      if (!strcmp (argv[i], "--free")) mode_free = 1;
      else if (!strcmp (argv[i], "--threads")) T = atoi (argv[++i]);
      else if (!strcmp (argv[i], "--pb")) PB = atoi (argv[++i]);
      else if (!strcmp (argv[i], "--reps")) reps = atoi (argv[++i]);
      else if (!strcmp (argv[i], "--two-ops")) two_ops = 1;
      else if (!strcmp (argv[i], "--part")) { part = atoi (argv[++i]); nparts = atoi (argv[++i]); }
      else if (!strcmp (argv[i], "--only")) { only_a = atoi (argv[++i]); only_b = atoi (argv[++i]); }
      else if (!strcmp (argv[i], "--list")) { int k; for (k = 0; k < NMENU; k++) printf ("%d %s\n", k, MENU[k].name); return 0; }
    }
  make_sources ();
  if (!mode_free)
    {
      mp_set_memory_functions (al_alloc, al_realloc, al_free);
      dl_iterate_phdr (phdr_cb, 0);
      memset (&sa, 0, sizeof sa); sa.sa_flags = SA_SIGINFO | SA_NODEFER; sa.sa_sigaction = on_segv; sigaction (SIGSEGV, &sa, 0);
      sa.sa_sigaction = on_trap; sigaction (SIGTRAP, &sa, 0);
      printf ("INFO protected_static_segments=%d menu=%d threads=%d pb=%d\n", nprot, NMENU, T, PB);
      if (nprot == 0) { printf ("ERROR no writable libmpir segment found (static link?)\n"); return 3; }
    }
  /* solo digests (sequential reference), computed under the write monitor */
  {
    static uint64_t solo_op[NMENU][MAXT];
    long w0;
    if (!mode_free) set_protection (1);
    for (a = 0; a < NMENU; a++)
      for (i = 0; i < MAXT; i++)
        {
          w0 = write_traps;
          solo_op[a][i] = MENU[a].f (i);
          if (MENU[a].f (i) != solo_op[a][i]) { printf ("VIOL nondeterministic-solo op=%s\n", MENU[a].name); violations++; }
          if (write_traps != w0)
            {
              printf ("VIOL write-to-shared-storage op=%s variant=%d writes=%ld first_addr=%#lx rip=%#lx (library static segment or shared source operand)\n", MENU[a].name, i, write_traps - w0,
                      (unsigned long) trap_addr[w0 < 16 ? w0 : 15], (unsigned long) trap_rip[w0 < 16 ? w0 : 15]);
              violations++;
            }
        }
    if (mode_free)
      {
        /* free-running: every pair (and a triple rotation) runs concurrently `reps` times; digests must match the solo ones */
        long runs = 0;
        sched_on = 0;
        for (a = 0; a < NMENU; a++)
          for (b = 0; b < NMENU; b++)
            {
              int r;
              if ((a * NMENU + b) % nparts != part) continue;
              plan[0][0] = a; plan_n[0] = 1; plan[1][0] = b; plan_n[1] = 1; plan[2][0] = (a + b) % NMENU; plan_n[2] = 1;
              for (r = 0; r < reps; r++)
                {
                  run_once (); runs++;
                  for (i = 0; i < T; i++)
                    {
                      uint64_t d = solo_op[plan[i][0]][i], h = fnv (H0, &d, sizeof d);
                      if (result[i] != h) { printf ("VIOL free-running result differs thread=%d op=%s with=%s\n", i, MENU[plan[i][0]].name, MENU[plan[1 - (i & 1)][0]].name); violations++; }
                    }
                }
            }
        printf ("DONE free runs=%ld violations=%ld\n", runs, violations);
        return violations ? 1 : 0;
      }
    sched_on = 1;
    if (violations)
      {
        /* the solo runs already show a write to shared storage: every interleaving of such an operation is suspect; report and stop */
        set_protection (0);
        printf ("DONE harnesses=0 executions=%d scheduling_decisions=0 max_points=0 write_traps=%ld violations=%ld capped=0\n", NMENU * MAXT, write_traps, violations);
        return 1;
      }
    {
      long harnesses = 0;
      for (a = 0; a < NMENU; a++)
        for (b = 0; b < NMENU; b++)
          for (c = 0; c < (T == 3 ? NMENU : 1); c++)
            {
              if (T == 3 && ((a * 7 + b * 3 + c) % 5)) continue;         /* triples: a fixed fifth of all combinations */
              if ((a * NMENU + b) % nparts != part) continue;
              if (only_a >= 0 && (a != only_a || b != only_b)) continue;
              plan[0][0] = a; plan[1][0] = b; plan[2][0] = c;
              plan_n[0] = plan_n[1] = plan_n[2] = 1;
              if (two_ops) { plan[0][1] = b; plan_n[0] = 2; plan[1][1] = a; plan_n[1] = 2; }
              for (i = 0; i < T; i++)
                {
                  int k; uint64_t h = H0;
                  for (k = 0; k < plan_n[i]; k++) { uint64_t d = solo_op[plan[i][k]][i]; h = fnv (h, &d, sizeof d); }
                  solo[i] = h;
                }
              w0 = write_traps;
              explore (0);
              harnesses++;
              if (write_traps != w0) { printf ("VIOL write-to-shared-storage during exploration ops=%s,%s writes=%ld rip=%#lx\n", MENU[a].name, MENU[b].name, write_traps - w0, (unsigned long) trap_rip[w0 < 16 ? w0 : 15]); violations++; }
            }
      set_protection (0);
      printf ("DONE harnesses=%ld executions=%ld scheduling_decisions=%ld max_points=%ld write_traps=%ld violations=%ld capped=%ld\n", harnesses, executions, total_points, max_points, write_traps, violations, hit_bound_cap);
    }
  }
  return violations ? 1 : 0;
}
