#!/bin/bash
# confirm-seeded.sh <id> <testdirs...>   e.g. confirm-seeded.sh C05a tests/mpz
ID=$1; shift
W=/tmp/wt/$ID
cd $W || exit 1
echo "== patch vs worktree diff"; git diff > /tmp/wt/$ID.cur.diff; diff -q /tmp/wt/$ID.cur.diff DELIVER/patch.diff && echo same || { echo DIFFERENT; diffstat /tmp/wt/$ID.cur.diff 2>/dev/null; }
git diff --stat | tail -3
echo "== rebuild"; make -j16 >/dev/null 2>&1; echo "make exit $?"
echo "== demo on mutated / on /repo"
D=DELIVER/demo.c; CC=gcc; EXTRA=""
[ -f DELIVER/demo.cc ] && { D=DELIVER/demo.cc; CC=g++; EXTRA="$W/.libs/libmpirxx.a"; }
$CC -pthread -I$W $D $EXTRA $W/.libs/libmpir.a -o /tmp/wt/$ID.demo_mut -lm 2>&1 | grep -v warning | head -3; timeout 120 /tmp/wt/$ID.demo_mut | tail -2; echo "mutated exit ${PIPESTATUS[0]}"
if [ "$CC" = gcc ]; then $CC -pthread -I/repo $D /repo/.libs/libmpir.a -o /tmp/wt/$ID.demo_ref -lm 2>&1 | grep -v warning | head -3; timeout 120 /tmp/wt/$ID.demo_ref | tail -2; echo "reference exit ${PIPESTATUS[0]}"; fi
echo "== tests"
for d in "$@"; do timeout 1500 make -j10 -C $d check 2>&1 | grep -E "^# (TOTAL|PASS|FAIL|ERROR)" | paste -sd' '; done
grep -E "^# (FAIL|ERROR)" check.log 2>/dev/null | sort | uniq -c | head -4
