#!/bin/bash
# usage: mk-scratch.sh <dir>   -- creates a git worktree of /repo at <dir> and makes it buildable (./configure && make -j16 && make check work there)
set -e
D="$1"
[ -z "$D" ] && { echo "usage: $0 <dir>"; exit 1; }
git -C /repo worktree add --detach "$D" HEAD >/dev/null 2>&1
# bring over the untracked-but-needed autotools files (configure, Makefile.in, ltmain.sh, ...), never objects or generated config
rsync -a --ignore-existing \
  --exclude=.git --exclude='*.o' --exclude='*.lo' --exclude='*.la' --exclude=.libs --exclude=.deps --exclude=autom4te.cache \
  --exclude='*.log' --exclude='*.trs' --exclude=config.status --exclude=config.h --exclude=config.m4 --exclude=libtool --exclude=stamp-h1 \
  --exclude=Makefile --exclude=/mpir.h --exclude=/gmp-mparam.h --exclude=/yasm_mac.inc --exclude=/longlong.h --exclude='/mpn/*.c' --exclude='/mpn/*.asm' --exclude='/mpn/*.as' --exclude='/mpn/*.h' \
  /repo/ "$D"/
# automake auxiliary files are symlinks into /usr/share: dereference
for f in ltmain.sh compile missing install-sh test-driver depcomp ylwrap config.guess config.sub; do
  if [ -L /repo/$f ]; then cp -L --remove-destination /repo/$f "$D"/$f; fi
done
# drop built test executables copied by accident
find "$D"/tests -type f -perm -u+x ! -name '*.sh' ! -name '*.c' -exec sh -c 'head -c4 "$1" | grep -q ELF && rm -f "$1"' _ {} \;
echo "scratch worktree ready: $D  (cd $D && ./configure >/dev/null && make -j16 >/dev/null && make -C tests/mpz check TESTS='t-mul')"
