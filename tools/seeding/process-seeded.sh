#!/bin/bash
# process-seeded.sh <id> <prop> <testdirs...>
ID=$1; P=$2; shift; shift
L=/tmp/wt/$ID.process.log
{
echo "##### $ID confirm"
/tmp/confirm-seeded.sh $ID "$@"
echo "##### $ID check $P"
/usr/bin/time -f "check wall %es" /verif/bin/try-seeded /tmp/wt/$ID $P 2>&1 | grep -v "^     case" | cut -c1-400 | tail -14
} > $L 2>&1
echo "done $ID"
